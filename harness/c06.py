"""C06 -- copies are faithful and independent; derived molecules never alter their sources.

Tie T (regenerated every run): every copy route of the real code (copy-constructors of the six
constructible classes incl. cross-class ones, Atom/Bond.evolve, pickle round trip, copy.deepcopy,
concatenate, join, ensemble-from-list, ensemble copy) is executed on instrumented sources and, for
every container the model has a location for (atom list, atom objects, their attrib dicts, parent
pointers, bond list, bond objects, their attrib dicts, bond ends, coordinate / charge / weight
arrays, the attrib dict, name/charge/mult), it is recorded whether the result's container IS the
source's, is a fresh copy with equal content, is fresh with other content, or is absent.  The rows
go to Gen/CopyRoutes.v; Props/C06.v decides by kernel computation that every row meets the
specification written from the property, and proves for ALL heaps that a row meeting it yields a
faithful, independent copy, and that independent objects obey the frame rule for every mutation.

Tie H: random sources of every class x every route x a menu of mutations applied to either side.
The real objects are read back container by container (identity -> location), and Coq replays the
copy (`copy_row` driven by the regenerated row) and the mutation in the model and must reproduce
the whole heap, the directly observed public fields of both sides, and confirms that the mutation
only wrote containers reachable from the object it went through.

Python oracle: deep snapshot of the other side before/after every mutation, field-by-field
comparison right after the copy, `is` / shares_memory on every container.

Keyword overrides: every copy-constructor route is also driven WITH keyword arguments that replace a
field -- dst(source, name= / charge= / mult= / coords= / atomic_charges= / weights=), each applicable one
alone and all together, on every (source class, destination class) pair (route `RCtorWith dst ovr`,
205 more rows of the table; attrib= and ConformerEnsemble([..], name= / coords= / ...) by the oracle only).
The construction itself must leave the source as it was (snapshot before / after the call), the result
must share nothing with the source (a replaced array is a fresh one), every field the call does not name
is the source's, a named field holds the value of the call; in the model the `given` record of such a
case is what the CALL said, merged by `pick_scal` / `copy_route`, so Coq predicts the result from the
source and the arguments.

Attribute VALUES: the attrib dictionaries of the object, of its atoms and of its bonds also hold MUTABLE values
(ndarray, list, dict, nested ones -- what the xtb / orca pipelines leave behind).  The mutable values one dictionary
holds are one more container of the model (`CVal`, the store the dictionary points to).  Routes whose contract is a
deep copy (pickle round trip, copy.deepcopy -- of every class, of a Conformer, of a lone Atom / Bond) must hand out
values of their own at every level: the table row says VFresh (kernel-checked), the result shares no value object
(nested ones included) with the source, and an IN-PLACE edit of a value (arr *= k, lst.append(x), d[k] = v, on a
nested member too) on either side leaves the other side as it was.  The copy constructors, evolve and what is built
from evolved atoms (concatenate, join, ensemble-from-list) copy the dictionary one level: there the table records
VShared, the model predicts the shared store, and the value content must still be equal; the in-place edit of such
a value is outside what the property enumerates (see DESIGN) and is not held against these routes.

CHAINS of copy routes (round 4): the source of a case may itself be a copy -- `prefix`, one or two routes applied to the
generated object before the route under test: every (class, route 1, route 2) of the single routes (a cross-class constructor
applied to an unpickled / deep-copied object, a pickle of a constructed object, ...), class-preserving copies of the operands
in front of concatenate / join / ensemble-from-list, and random chains of three.  Oracle: (a) the result against the object
the chain STARTED from, on every field all classes on the way have; (b) a copy stands in for its source: the chain without
its class-preserving steps (pickle, deepcopy, same-class constructor) gives a result equal in every observed field, and a
route that works on the source works on the copy (`...:raises:<Exc>:after:<chain>`); (c) the result shares no container with
ANY earlier object of the chain (no value object with those a deep copy separates it from); (d) a mutation of the result
leaves every earlier object as it was and vice versa.  Tie H: the heap of such a case holds the original, the intermediate
and the result; Coq replays the last step on the intermediate and must reproduce the whole heap and what every one of them
shows before and after the mutation.  Model/AliasChain.v + Proofs/AliasChain.v: `copy_chain`, for all heaps and chains.

Attribute value TYPES (round 4): values beyond numbers / strings / arrays / lists / dicts (EXOTIC: Counter, defaultdict,
OrderedDict, namedtuple, nested tuple, set, frozenset, bytes, bytearray, None, enum member, numpy scalar, complex, an attrs
instance, an Atom / a Bond OF THE SAME OBJECT, lists / dicts of those, two atoms naming each other) are stored on the object,
an atom or a bond and compared after every route by exact type and content at every depth (`tkey`: a Counter is not a dict, a
namedtuple is not a tuple; insertion order; default_factory).  Deep routes must also re-point a stored Atom / Bond INTO the
copy (same index) and share no such object; on one-level routes the stored object is the source's (VShared ruling: predicted,
not reported).  A route that raises on such a source but runs on its twin with ordinary values is a violation
(`...:raises:<Exc>:exotic-values`).  In the model such values are content-free tokens (the model cannot look into them).
"""
import os, sys, json, struct, pickle, copy as _copy, itertools, math, collections
import attrs
import vlib
from vlib import cq_list, cq_bool

# user-side classes of attribute values (module level: picklable as c06.<name>)
PointNT = collections.namedtuple("PointNT", "x y")


@attrs.define(eq=False)
class UserTag:
    """an attrs instance a caller stores as an attribute value (mutable, with a mutable member)"""
    label: str = "t"
    data: list = attrs.field(factory=list)

HEADER = ("From Coq Require Import List ZArith.\nImport ListNotations.\n"
          "From Molli Require Import Model.Alias Gen.CopyRoutes.\nOpen Scope nat_scope.\n")

KCODE = {"Promolecule": 1, "Connectivity": 2, "CartesianGeometry": 3, "Structure": 4, "Molecule": 5,
         "ConformerEnsemble": 6, "Conformer": 7, "Atom": 8, "Bond": 9}
KCOQ = {"Promolecule": "KPromolecule", "Connectivity": "KConnectivity", "CartesianGeometry": "KGeometry",
        "Structure": "KStructure", "Molecule": "KMolecule", "ConformerEnsemble": "KEnsemble",
        "Conformer": "KConformer", "Atom": "KAtom", "Bond": "KBond"}
CTOR_DST = ["Promolecule", "Connectivity", "CartesianGeometry", "Structure", "Molecule", "ConformerEnsemble"]
SOURCES = CTOR_DST + ["Conformer"]

ATOM_FIELDS = ["element", "isotope", "label", "atype", "stereo", "geom", "formal_charge", "formal_spin"]
BOND_FIELDS = ["label", "btype", "stereo", "f_order"]

# known findings would be recorded in known_findings.d/C06.json and excluded in Props/C06.v `known`
# as (class, route, field) triples; none is open today.


def Zt(z):
    return f"({z})%Z" if z < 0 else f"{z}%Z"


# ------------------------------------------------------------------ leaves
def leaf_key(v):
    """Canonical, hashable description of a leaf value (compared only for equality)."""
    import numpy as np
    if isinstance(v, (float, np.floating)):
        f = float(v)
        if f != f:
            return ("f", "nan")
        return ("f", struct.pack(">d", f).hex())
    if isinstance(v, (bool, np.bool_)):
        return ("b", bool(v))
    if isinstance(v, (int, np.integer)) and not hasattr(v, "name"):
        return (type(v).__name__ if isinstance(v, np.integer) else "int", int(v))
    if v is None:
        return ("none",)
    if isinstance(v, str):
        return ("s", v)
    return (type(v).__name__, repr(v))


class Intern:
    def __init__(self):
        self.t = {}

    def __call__(self, key):
        if key not in self.t:
            self.t[key] = len(self.t) + 1
        return self.t[key]


def arr_key(a):
    ai = a.__array_interface__
    return ("arr", ai["data"][0], tuple(a.shape), tuple(a.strides), str(a.dtype))


def flat(a):
    import numpy as np
    return [leaf_key(x) for x in np.asarray(a, dtype=float).ravel().tolist()]


# ------------------------------------------------------------------ mutable values inside attrib dictionaries
def is_mut(v):
    import numpy as np
    return isinstance(v, (np.ndarray, list, dict, set, bytearray))


def is_ref(v):
    """A value that is an object of its own with identity (an Atom / Bond of some molecule, an attrs instance): shown as a
    content-free token; what it holds and whom it belongs to is judged by the typed observation (`tkey`), not by the model."""
    return attrs.has(type(v))


def vkey(v):
    """What an attrib dictionary shows of a value WITHOUT looking into it: a leaf, or a content-free token for a
    mutable value (its content lives in the store of the dictionary)."""
    if is_mut(v) or is_ref(v) or (isinstance(v, (tuple, frozenset)) and any(is_mut(x) or is_ref(x) or isinstance(x, tuple) for x in v)):
        return ("ref", type(v).__name__)
    return leaf_key(v)


def flat_val(v, out, members):
    """Leaves of a value in depth-first order (-> out) and every mutable object met on the way (-> members)."""
    import numpy as np
    if isinstance(v, np.ndarray):
        members.append(v)
        out.append(("arr", str(v.dtype), tuple(v.shape)))
        out.extend(leaf_key(x) for x in v.ravel().tolist())
    elif isinstance(v, (list, tuple)):
        if isinstance(v, list):
            members.append(v)
        out.append((type(v).__name__, len(v)))
        for x in v:
            flat_val(x, out, members)
    elif isinstance(v, dict):
        members.append(v)
        # the TYPE of the container is content (a Counter / defaultdict / OrderedDict that comes back as a plain dict differs)
        out.append((type(v).__name__, len(v)) + ((repr(v.default_factory),) if isinstance(v, collections.defaultdict) else ()))
        for k, x in v.items():
            out.append(leaf_key(k))
            flat_val(x, out, members)
    elif isinstance(v, (set, bytearray)):
        members.append(v)
        out.append((type(v).__name__, repr(sorted(v, key=repr) if isinstance(v, set) else bytes(v))))
    else:
        out.append(vkey(v))


def dict_store(d):
    """(content, members) of the mutable values dictionary d holds; content is None when it holds none."""
    out, members = [], []
    for k, v in d.items():
        if is_mut(v):
            flat_val(v, out, members)
    return (out if members else None), members


def same_obj(x, y):
    import numpy as np
    if x is y:
        return True
    return isinstance(x, np.ndarray) and isinstance(y, np.ndarray) and x.size > 0 and y.size > 0 and np.shares_memory(x, y)


def member_key(x):
    import numpy as np
    if isinstance(x, np.ndarray) and x.size:
        return ("a", x.__array_interface__["data"][0])
    return ("o", id(x))


def rnd_value(rng, k=None):
    """A mutable attribute value of the kinds the molli pipelines store (flat: k < 4, nested: k >= 4)."""
    import numpy as np
    k = rng.randrange(7) if k is None else k
    if k == 0:
        return np.array([rnd_float(rng) for _ in range(rng.randrange(1, 4))])
    if k == 1:
        return np.array([[rnd_float(rng), 1.0], [0.5, rnd_float(rng)]])
    if k == 2:
        return [rng.randrange(9), 2.5, "s"][: rng.randrange(1, 4)]
    if k == 3:
        return {"value": rnd_float(rng), "method": "gfn2"}
    if k == 4:
        return [1, [rng.randrange(9), 3.5]]
    if k == 5:
        return {"grad": np.array([rnd_float(rng), 0.25]), "n": 2}
    return [{"i": rng.randrange(5)}, {"w": [0.5]}]


def edit_value_in_place(d, rng):
    """Edits, in place, one of the mutable objects stored (at any depth) in dictionary d.  Never rebinds a key, never
    adds or removes a mutable object.  Returns a description, or None when d holds no mutable value."""
    import numpy as np
    _, members = dict_store(d)
    if not members:
        return None
    x = rng.choice(members)
    if isinstance(x, np.ndarray):
        if x.size and rng.random() < 0.5:
            x *= 627.5
        elif x.size:
            x.flat[rng.randrange(x.size)] = -99.5
        return "ndarray"
    if isinstance(x, list):
        leafs = [i for i, y in enumerate(x) if not isinstance(y, (list, dict, tuple, np.ndarray, set))]
        if leafs and rng.random() < 0.5:
            x[rng.choice(leafs)] = "edited"
        else:
            x.append(-1.0)
        return "list"
    if isinstance(x, dict):
        x["edited"] = 0.0
        return "dict"
    if isinstance(x, set):
        x.add(-1.0)
        return "set"
    if isinstance(x, bytearray):
        x.append(7)
        return "bytearray"
    return None


# ------------------------------------------------------------------ attribute values by TYPE and content (oracle side)
def _qual(t):
    return f"{t.__module__}.{t.__qualname__}"


def tkey(v, own=None, seen=()):
    """Type-and-content description of an attribute value, at every depth: the exact class of every container and leaf
    (a Counter is not a dict, a namedtuple is not a tuple, numpy.float64 is not float), insertion order of mappings,
    default_factory of a defaultdict, fields of attrs instances; an Atom / Bond is described by its fields and by WHERE it
    lives -- own(x) says ("atom", i) / ("bond", j) of the observed object or ("foreign",); own=None leaves that out."""
    import numpy as np
    import enum
    from molli.chem import Atom, Bond
    t = _qual(type(v))
    if id(v) in seen:
        return (t, "cycle")
    sn = seen + (id(v),)
    if isinstance(v, (Atom, Bond)):
        w = own(v) if own else ("-",)
        fl = tuple(leaf_key(getattr(v, f)) for f in (ATOM_FIELDS if isinstance(v, Atom) else BOND_FIELDS))
        return (t, w, fl)       # (the attributes of an atom / bond are observed where it lives)
    if isinstance(v, np.ndarray):
        return (t, str(v.dtype), tuple(v.shape), tuple(tkey(x, own, sn) for x in v.ravel().tolist()))
    if isinstance(v, dict):
        extra = (repr(v.default_factory),) if isinstance(v, collections.defaultdict) else ()
        return (t,) + extra + (tuple((tkey(k, own, sn), tkey(x, own, sn)) for k, x in v.items()),)
    if isinstance(v, (list, tuple)):
        return (t, tuple(getattr(v, "_fields", ())), tuple(tkey(x, own, sn) for x in v))
    if isinstance(v, (set, frozenset)):
        return (t, tuple(sorted((tkey(x, own, sn) for x in v), key=repr)))
    if isinstance(v, (bytes, bytearray)):
        return (t, bytes(v).hex())
    if isinstance(v, enum.Enum):
        return (t, v.name)
    if attrs.has(type(v)):
        return (t, tuple((a.name, tkey(getattr(v, a.name, None), own, sn)) for a in attrs.fields(type(v)) if a.name != "_parent"))
    return (t,) + tuple(leaf_key(v))


def deep_members(v, out, seen):
    """Every object with identity and mutable state met inside an attribute value (containers, attrs instances, atoms, bonds)."""
    import numpy as np
    if id(v) in seen:
        return
    seen.add(id(v))
    if isinstance(v, np.ndarray):
        out.append(v)
    elif isinstance(v, dict):
        out.append(v)
        for x in v.values():
            deep_members(x, out, seen)
    elif isinstance(v, (list, tuple, set, frozenset)):
        if not isinstance(v, (tuple, frozenset)):
            out.append(v)
        for x in v:
            deep_members(x, out, seen)
    elif isinstance(v, bytearray):
        out.append(v)
    elif attrs.has(type(v)):
        out.append(v)
        for a in attrs.fields(type(v)):
            if a.name != "_parent":
                deep_members(getattr(v, a.name, None), out, seen)


def typed_obs(unit):
    """The attrib dictionaries of an object, of its atoms and of its bonds by type and content (`tkey`): (with, without) the
    information which atom / bond of the object a stored Atom / Bond is."""
    o = unit.read
    atoms = list(o.atoms)
    bonds = list(o.bonds) if _has_bonds(o) else []
    ia = {id(a): i for i, a in enumerate(atoms)}
    ib = {id(b): j for j, b in enumerate(bonds)}
    refs = []

    def own(x):
        refs.append(1)
        if id(x) in ia:
            return ("atom", ia[id(x)])
        if id(x) in ib:
            return ("bond", ib[id(x)])
        return ("foreign",)
    mk = lambda f: {"obj": tkey(o.attrib, f), "atoms": [tkey(a.attrib, f) for a in atoms], "bonds": [tkey(b.attrib, f) for b in bonds]}
    t1 = mk(own)
    return t1, (mk(None) if refs else t1)


EXOTIC = ["Counter", "defaultdict", "OrderedDict", "namedtuple", "tuple-nested", "set", "frozenset", "bytes", "None", "bytearray",
          "atom-ref", "bond-ref", "attrs-instance", "list-of-refs", "dict-of-refs", "enum", "numpy-scalar", "atoms-naming-each-other",
          "complex"]


def exotic_value(rng, kind, atoms, bonds):
    """An attribute value of a kind beyond numbers / strings / arrays / lists / dicts.  Returns None (the Python None is kind
    "None") when the kind does not apply to the object (no atom / bond to refer to)."""
    import numpy as np
    import difflib
    from molli.chem import Element
    if kind == "Counter":
        return collections.Counter("aab" + "c" * rng.randrange(3))
    if kind == "defaultdict":
        d = collections.defaultdict(list)
        d["k"].append(rng.randrange(5))
        return d
    if kind == "OrderedDict":
        d = collections.OrderedDict([("z", 1), ("a", [2.5])])
        d.move_to_end("z")
        return d
    if kind == "namedtuple":
        return rng.choice([PointNT(1.0, rng.randrange(4)), difflib.Match(1, 2, rng.randrange(1, 5))])
    if kind == "tuple-nested":
        return (rng.randrange(9), [2, 3], ("x", 0.5))
    if kind == "set":
        return {1, "two", rng.randrange(3, 9)}
    if kind == "frozenset":
        return frozenset({1, rng.randrange(3, 9)})
    if kind == "bytes":
        return bytes([0, 255, rng.randrange(256)])
    if kind == "bytearray":
        return bytearray([1, 2, rng.randrange(256)])
    if kind == "enum":
        return rng.choice([Element.Pd, Element.C])
    if kind == "numpy-scalar":
        return rng.choice([np.float32(1.5), np.int64(7), np.float64(0.25), np.bool_(True)])
    if kind == "complex":
        return complex(1.5, -2.0)
    if kind == "attrs-instance":
        return UserTag(rng.choice(["t", "u"]), [rng.randrange(5), [0.5]])
    if kind == "atom-ref":
        return rng.choice(atoms) if atoms else None
    if kind == "bond-ref":
        return rng.choice(bonds) if bonds else None
    if kind == "list-of-refs":
        return [rng.choice(atoms), PointNT(0, 1), collections.Counter("xy")] if atoms else None
    if kind == "dict-of-refs":
        return {"who": rng.choice(atoms), "n": collections.Counter("q"), "t": (1, 2)} if atoms else None
    return None


def decorate_exotic(obj, rng, kinds=None):
    """Stores 2..4 exotic attribute values on the finished object: on the object, on an atom, on a bond.  References name
    atoms / bonds OF THIS object (a Conformer: of its ensemble).  Returns the kinds used."""
    o = obj._parent if type(obj).__name__ == "Conformer" else obj
    atoms = list(o.atoms)
    bonds = list(o.bonds) if _has_bonds(o) else []
    used = []
    for kind in (kinds or rng.sample(EXOTIC, rng.randrange(2, 5))):
        if kind == "atoms-naming-each-other":
            if len(atoms) >= 2:
                a, b = rng.sample(atoms, 2)
                a.attrib["mapped_to"], b.attrib["mapped_to"] = b, a
                used.append(kind)
            continue
        if kind == "None":
            v = None
        else:
            v = exotic_value(rng, kind, atoms, bonds)
            if v is None:
                continue
        level = rng.choice(["obj"] + (["atom"] * 2 if atoms else []) + (["bond"] if bonds else []))
        d = o.attrib if level == "obj" else (rng.choice(atoms).attrib if level == "atom" else rng.choice(bonds).attrib)
        d["x_" + kind.replace("-", "_")] = v
        used.append(kind)
    return used


# ------------------------------------------------------------------ units: what is read as "one object"
class Unit:
    """An object as the model sees it: where its containers are read from, its class code and
    its scalar fields.  A Conformer that is copied AS a conformer (pickle / deepcopy) is read
    through its ensemble (the ensemble is what gets copied)."""

    def __init__(self, obj, through_parent=False):
        self.obj = obj
        self.kname = type(obj).__name__ if type(obj).__name__ in KCODE else _base_name(obj)
        self.through = through_parent
        self.read = obj._parent if through_parent else obj

    # private containers (for the heap encoding)
    def atoms_list(self):
        return self.read._atoms

    def bonds_list(self):
        return getattr(self.read, "_bonds", None)

    def arr(self, name):
        try:
            return getattr(self.read, name, None)
        except AttributeError:
            return None

    def attrib(self):
        return self.read.attrib

    def scal(self):
        out = []
        for f in ("name", "charge", "mult"):
            try:
                out.append(leaf_key(getattr(self.read, f)))
            except AttributeError:
                out.append(("missing",))
        if self.through:
            out.append(leaf_key(self.obj._conf_id))
        return out


def _base_name(obj):
    for c in type(obj).__mro__:
        if c.__name__ in KCODE:
            return c.__name__
    return "Promolecule"


class VSrc:
    """Virtual source of a derived molecule: the union object the route builds its result from."""

    def __init__(self, kname, atoms, bonds, coords, charges, weights, attrib, scal, objs):
        self.kname, self.atoms, self.bonds = kname, atoms, bonds
        self.coords, self.charges, self.weights, self.attrib_d, self.scal_v = coords, charges, weights, attrib, scal
        self.objs = objs            # the real source objects


# ------------------------------------------------------------------ direct observation (public API)
def raw_obs(unit):
    """What the property calls observable, read through the PUBLIC accessors; nested python data of leaf keys.
    Mirrors Model/Alias.v `obs`."""
    o = unit.read
    atoms = list(o.atoms)

    def pcl(x):
        try:
            p = x.parent
        except AttributeError:
            return "QMissing"
        if p is None:
            return "QNone"
        return "QSelf" if p is o else "QOther"

    def idx(a):
        for i, x in enumerate(atoms):
            if x is a:
                return i
        return None

    A = [([leaf_key(getattr(a, f)) for f in ATOM_FIELDS], [(leaf_key(k), vkey(v)) for k, v in a.attrib.items()], pcl(a))
         for a in atoms]
    bl = getattr(o, "bonds", None) if _has_bonds(o) else None
    B = None
    if bl is not None:
        B = [(idx(b.a1), idx(b.a2), [leaf_key(getattr(b, f)) for f in BOND_FIELDS],
              [(leaf_key(k), vkey(v)) for k, v in b.attrib.items()], pcl(b)) for b in bl]

    def arr(name):
        try:
            v = getattr(o, name, None)
        except AttributeError:
            return None
        return None if v is None else flat(v)
    return {"cls": KCODE[unit.kname], "scal": unit.scal(), "atoms": A, "bonds": B,
            "coords": arr("coords") if _pub(o, "coords") else None,
            "charges": arr("atomic_charges") if _pub(o, "atomic_charges") else None,
            "weights": arr("weights") if _pub(o, "weights") else None,
            "attrib": [(leaf_key(k), vkey(v)) for k, v in o.attrib.items()],
            # the DEEP part (mirrors Model/Alias.v `stores`): content of the mutable values held by the attrib dictionaries
            "stores": {"obj": dict_store(o.attrib)[0], "atoms": [dict_store(a.attrib)[0] for a in atoms],
                       "bonds": [dict_store(b.attrib)[0] for b in bl] if bl is not None else []},
            # oracle only: every attribute value by type and content; `typed` also says which atom / bond of THIS object a
            # stored Atom / Bond is (only a deep copy re-points such references into the copy)
            **dict(zip(("typed", "typed0"), typed_obs(unit)))}


def no_stores(ro):
    return {k: v for k, v in ro.items() if k not in ("stores", "typed", "typed0")}


def stores_term(ro, it):
    if ro is None:
        return "None"

    def oz(c):
        return "None" if c is None else "(Some " + cq_list(Zt(it(k)) for k in c) + ")"
    st = ro["stores"]
    return f"(Some (mk_stores {oz(st['obj'])} {cq_list(oz(c) for c in st['atoms'])} {cq_list(oz(c) for c in st['bonds'])}))"


def _pub(o, name):
    return hasattr(type(o), name)


def _has_bonds(o):
    return hasattr(type(o), "bonds") and getattr(o, "_bonds", None) is not None


def obs_term(ro, it):
    if ro is None:
        return "None"

    def zs(l):
        return cq_list(Zt(it(k)) for k in l)

    def dct(d):
        return cq_list(f"({Zt(it(k))}, {Zt(it(v))})" for k, v in d)

    def on(i):
        return "None" if i is None else f"(Some {i})"
    A = cq_list(f"(Some ({zs(p)}, Some {dct(d)}, {q}))" for p, d, q in ro["atoms"])
    B = "None" if ro["bonds"] is None else "(Some " + cq_list(
        f"(Some ({on(i)}, {on(j)}, {zs(p)}, Some {dct(d)}, {q}))" for i, j, p, d, q in ro["bonds"]) + ")"

    def oa(v):
        return "None" if v is None else f"(Some {zs(v)})"
    return (f"(Some (mk_obs {Zt(ro['cls'])} {zs(ro['scal'])} {A} {B} {oa(ro['coords'])} {oa(ro['charges'])} "
            f"{oa(ro['weights'])} (Some {dct(ro['attrib'])})))")


def strip_obs(ro, need, deep=False):
    """The part of an observation a route has to reproduce (parents are judged separately)."""
    d = {"atoms": [(p, a) for p, a, _ in ro["atoms"]]}
    ty = ro["typed" if deep else "typed0"]
    d["atom-attrib-value-types"] = ty["atoms"]
    if need["bonds"]:
        d["bond-attrib-value-types"] = ty["bonds"]
    if need["attrib"]:
        d["attrib-value-types"] = ty["obj"]
    if need["bonds"]:
        d["bonds"] = None if ro["bonds"] is None else [(i, j, p, a) for i, j, p, a, _ in ro["bonds"]]
    for f in ("coords", "charges", "weights"):
        if need[f]:
            d[f] = ro[f]
    if need["scal"]:
        d["scal"] = ro["scal"]
    if need["attrib"]:
        d["attrib"] = ro["attrib"]
        d["attrib-values"] = ro["stores"]["obj"]
    d["atom-attrib-values"] = ro["stores"]["atoms"]
    if need["bonds"]:
        d["bond-attrib-values"] = ro["stores"]["bonds"]
    return d


# ------------------------------------------------------------------ heap encoder (identity -> location)
class Enc:
    def __init__(self, it):
        self.it = it
        self.loc = {}          # key -> loc
        self.objs = []         # loc -> (kind, python object / Unit / synthetic cell term)
        self.keep = []

    def _key(self, kind, x):
        return arr_key(x) if kind == "arr" else ("o", id(x))

    def known(self, kind, x):
        return self._key(kind, x) in self.loc

    def reg(self, kind, x, at=None):
        k = self._key(kind, x)
        if k in self.loc:
            return self.loc[k]
        self.keep.append(x)
        if at is None:
            at = len(self.objs)
            self.objs.append(None)
        else:
            while len(self.objs) <= at:
                self.objs.append(None)
            assert self.objs[at] is None, "layout slot taken twice"
        self.objs[at] = (kind, x)
        self.loc[k] = at
        return at

    def reg_unit(self, unit, at=None):
        k = ("o", id(unit.read), unit.kname)
        if k in self.loc:
            return self.loc[k]
        self.keep.append(unit)
        if at is None:
            at = len(self.objs)
            self.objs.append(None)
        else:
            while len(self.objs) <= at:
                self.objs.append(None)
        self.objs[at] = ("unit", unit)
        self.loc[k] = at
        # a parent pointer to the underlying object means "this unit"
        self.loc.setdefault(("o", id(unit.read)), at)
        return at

    def synth(self, term):
        self.objs.append(("synth", term))
        return len(self.objs) - 1

    # -- the store of the mutable values a dictionary holds: identified by the objects themselves (a dictionary copied
    #    one level holds the SAME objects: the same store), re-read through the dictionary it was first met in
    def store_key(self, d):
        _, members = dict_store(d)
        return ("vs",) + tuple(member_key(x) for x in members) if members else None

    def reg_store(self, d, at=None):
        k = self.store_key(d)
        if k is None:
            return None
        if k in self.loc:
            return self.loc[k]
        self.keep.append(dict_store(d)[1])
        if at is None:
            at = len(self.objs)
            self.objs.append(None)
        else:
            while len(self.objs) <= at:
                self.objs.append(None)
            assert self.objs[at] is None, "layout slot taken twice"
        self.objs[at] = ("store", d)
        self.loc[k] = at
        return at

    def store_known(self, d):
        k = self.store_key(d)
        return k is None or k in self.loc

    def pad(self, n):
        while len(self.objs) < n:
            self.objs.append(None)

    # -- terms
    def zs(self, keys):
        return cq_list(Zt(self.it(k)) for k in keys)

    def dct(self, d):
        return cq_list(f"({Zt(self.it(leaf_key(k)))}, {Zt(self.it(vkey(v)))})" for k, v in d.items())

    def dcell(self, d):
        st = self.reg_store(d)
        return f"(CDict {self.dct(d)} {'None' if st is None else f'(Some {st})'})"

    def pref(self, x):
        try:
            p = x.parent
        except AttributeError:
            return "PMissing"
        if p is None:
            return "PNone"
        k = ("o", id(p))
        if k not in self.loc:
            self.keep.append(p)
            self.objs.append(("opaque", p))
            self.loc[k] = len(self.objs) - 1
        return f"(PTo {self.loc[k]})"

    def cell(self, l):
        """Re-read container l from the live object. May register newly reachable containers."""
        ent = self.objs[l]
        if ent is None:
            return "CFree"
        kind, x = ent
        if kind in ("opaque",):
            return "CFree"
        if kind == "synth":
            return x
        if kind == "dict":
            return self.dcell(x)
        if kind == "store":
            c = dict_store(x)[0]
            return "CFree" if c is None else f"(CVal {self.zs(c)})"
        if kind == "arr":
            return f"(CArr {self.zs(flat(x))})"
        if kind == "atom":
            return f"(CAtom {self.zs([leaf_key(getattr(x, f)) for f in ATOM_FIELDS])} {self.reg('dict', x.attrib)} {self.pref(x)})"
        if kind == "bond":
            return (f"(CBond {self.reg('atom', x.a1)} {self.reg('atom', x.a2)} "
                    f"{self.zs([leaf_key(getattr(x, f)) for f in BOND_FIELDS])} {self.reg('dict', x.attrib)} {self.pref(x)})")
        if kind == "list":
            from molli.chem import Atom
            return "(CList " + cq_list(str(self.reg("atom" if isinstance(y, Atom) else "bond", y)) for y in x) + ")"
        if kind == "unit":
            u = x

            def ol(v, k):
                return "None" if v is None else f"(Some {self.reg(k, v)})"
            bl = u.bonds_list()
            return (f"(CMol {Zt(KCODE[u.kname])} {self.zs(u.scal())} {self.reg('list', u.atoms_list())} {ol(bl, 'list')} "
                    f"{ol(u.arr('_coords'), 'arr')} {ol(u.arr('_atomic_charges'), 'arr')} {ol(u.arr('_weights'), 'arr')} "
                    f"{self.reg('dict', u.attrib())})")
        raise AssertionError(kind)

    def read_all(self):
        """All cells, re-read; loops until no new container is discovered."""
        out = []
        i = 0
        while i < len(self.objs):
            out.append(self.cell(i))
            i += 1
        # reading may have registered containers at indices already passed?  No: new ones are appended.
        return out


def heap_term(cells):
    return "[" + ";\n    ".join(cells) + "]"


# ------------------------------------------------------------------ sources
ELEMS = ["C", "N", "O", "H", "Cl", "S", "P", "F"]


def rnd_float(rng):
    return rng.choice([0.0, 1.5, -2.25, 0.125, 3.0, -0.5, 7.75, 1e-3, 12.0625, -4.5]) + rng.randrange(0, 8)


def make_source(ml, rng, kname, n=None, rich=False, vals=True, ensure=None):
    """A random object of class kname built through the public API.  vals: the attrib dictionaries may hold mutable
    values (ndarray / list / dict / nested); ensure in ("obj", "atom", "bond"): at least one at that level."""
    import numpy as np
    from molli.chem import Atom, Bond, AtomType, AtomStereo, AtomGeom, BondType, BondStereo
    base = "ConformerEnsemble" if kname == "Conformer" else kname
    n = rng.randrange(1, 6) if n is None else n
    if ensure == "bond" and n < 2:
        n = 2
    atoms = []
    for i in range(n):
        a = Atom(rng.choice(ELEMS), isotope=rng.choice([None, None, 13, 2]), label=rng.choice([None, f"L{i}", "x"]),
                 atype=rng.choice(list(AtomType)), stereo=rng.choice(list(AtomStereo)), geom=rng.choice(list(AtomGeom)),
                 formal_charge=rng.choice([0, 0, 1, -1]), formal_spin=rng.choice([0, 0, 1]))
        if rich or rng.random() < 0.6:
            a.attrib[f"k{rng.randrange(3)}"] = rng.choice([1, "v", 2.5, (1, 2)])
        if rng.random() < 0.2:
            a.attrib["__implicit_hydrogens"] = rng.randrange(0, 3)
        if vals == "rich":       # instrumented sources: a flat and a nested value in every dictionary
            a.attrib["NMR_shielding"], a.attrib["grad"] = rnd_value(rng, rng.randrange(4)), rnd_value(rng, 4 + rng.randrange(3))
        elif vals and (rng.random() < 0.4 or (ensure == "atom" and i == 0)):
            a.attrib[rng.choice(["NMR_shielding", "grad"])] = rnd_value(rng)
        atoms.append(a)
    pairs = [(i, j) for i in range(n) for j in range(i + 1, n)]
    rng.shuffle(pairs)
    pairs = pairs[: rng.randrange(0, min(len(pairs), n + 1) + 1)] if not rich else pairs[: max(1, min(len(pairs), n))]
    if ensure == "bond" and not pairs and n >= 2:
        pairs = [(0, 1)]
    coords = [[rnd_float(rng) + 0.37 * i, rnd_float(rng) - 0.11 * i, rnd_float(rng) + 0.05 * i * i] for i in range(n)]
    charges = [rng.choice([0.25, -0.5, 0.125, 1.0, -0.0625]) for _ in range(n)]
    cls = {"Promolecule": ml.Promolecule, "Connectivity": ml.Connectivity, "CartesianGeometry": ml.CartesianGeometry,
           "Structure": ml.Structure, "Molecule": ml.Molecule, "ConformerEnsemble": ml.Molecule}[base]
    o = cls(name=rng.choice(["src", "mol_a", None]), charge=rng.choice([None, 1, -1]), mult=rng.choice([None, 2]))
    for i, a in enumerate(atoms):
        if base in ("Molecule", "ConformerEnsemble"):
            o.add_atom(a, coords[i], charges[i])
        elif base in ("CartesianGeometry", "Structure"):
            o.add_atom(a, coords[i])
        else:
            o.append_atom(a)
    if base not in ("Promolecule", "CartesianGeometry"):
        for i, j in pairs:
            b = Bond(atoms[i], atoms[j], label=rng.choice([None, "b"]), btype=rng.choice(list(BondType)),
                     stereo=rng.choice(list(BondStereo)), f_order=rng.choice([1.0, 1.5, 2.0]))
            if rich or rng.random() < 0.5:
                b.attrib[f"q{rng.randrange(2)}"] = rng.choice([7, "w"])
            if vals == "rich":
                b.attrib["wbo"], b.attrib["lmo"] = rnd_value(rng, rng.randrange(4)), rnd_value(rng, 4 + rng.randrange(3))
            elif vals and (rng.random() < 0.4 or ensure == "bond"):
                b.attrib["wbo"] = rnd_value(rng)
            o.append_bond(b)
    if rich or rng.random() < 0.7:
        o.attrib[f"m{rng.randrange(3)}"] = rng.choice([1, "z", 0.5])
    if rich:
        o.attrib["m9"] = "nine"
    if vals == "rich":
        o.attrib["XTB/Conformer_Energies"], o.attrib["history"] = rnd_value(rng, rng.randrange(4)), rnd_value(rng, 4 + rng.randrange(3))
    elif vals and (rng.random() < 0.5 or ensure == "obj"):
        o.attrib["XTB/Conformer_Energies"] = rnd_value(rng)
        if rng.random() < 0.4:
            o.attrib["history"] = rnd_value(rng)
    if base == "ConformerEnsemble":
        nc = rng.randrange(1, 4)
        mols = [o]
        for c in range(1, nc):
            mc = ml.Molecule(o)
            mc.coords = np.array(coords) + c
            mc.atomic_charges = np.array(charges) * (c + 1)
            mols.append(mc)
        e = ml.ConformerEnsemble(mols)
        e.weights[:] = [1.0 + 0.5 * c for c in range(nc)]
        for k, v in o.attrib.items():
            e.attrib[k] = v
        if kname == "Conformer":
            return e[rng.randrange(nc)]
        return e
    return o


DESIGNATORS = ["atom", "index", "negindex", "label", "element"]


def make_joinable(ml, rng, kname, vals=True):
    """A structure with one attachment point -- at a RANDOM position of the atom list -- bonded to exactly one
    atom; non-degenerate geometry; pairwise distinct partial charges.  The attachment point is the only atom
    with its label and its element, and its element's integer value is a valid atom index different from
    its position (Element is an IntEnum: a designator confusion must be visible)."""
    from molli.chem import Atom, Bond, AtomType, AtomStereo, AtomGeom, BondType, BondStereo, Element
    n = rng.randrange(2, 5)
    k = rng.randrange(n + 1)
    ap_el = rng.choice([e for e in ("Unknown", "He", "Li") if Element[e].value < n + 1 and Element[e].value != k])
    ap = Atom(ap_el, atype=AtomType.AttachmentPoint, label="AP")
    ap.attrib["ap"] = 1
    real = []
    for i in range(n):
        a = Atom(rng.choice(ELEMS), isotope=rng.choice([None, 13]), label=f"R{i}",
                 atype=rng.choice([t for t in AtomType if t != AtomType.AttachmentPoint]), stereo=rng.choice(list(AtomStereo)),
                 geom=rng.choice(list(AtomGeom)), formal_charge=rng.choice([0, 1, -1]))
        a.attrib[f"k{i}"] = rng.choice([1, "v", 2.5])
        if vals == "rich":
            a.attrib["NMR_shielding"], a.attrib["grad"] = rnd_value(rng, rng.randrange(4)), rnd_value(rng, 4 + rng.randrange(3))
        elif vals and (i == 0 or rng.random() < 0.4):
            a.attrib["grad"] = rnd_value(rng)
        real.append(a)
    atoms = real[:k] + [ap] + real[k:]
    o = ctor(ml, kname)(name=rng.choice(["fragA", "fragB"]), charge=rng.choice([None, 1]))
    sgn = rng.choice([1, -1])
    for i, a in enumerate(atoms):
        c = [1.25 * i + rnd_float(rng) * 0.125, 0.5 * i * i - 0.375 * i, (-1) ** i * 0.75 + 0.0625 * i * i * i]
        if kname == "Molecule":
            o.add_atom(a, c, sgn * 0.0625 * (i + 1) + 0.001953125 * rng.randrange(8))
        else:
            o.add_atom(a, c)
    pairs = [(x, y) for x in range(n) for y in range(x + 1, n)]
    rng.shuffle(pairs)
    for x, y in pairs[: rng.randrange(1, len(pairs) + 1)]:
        b = Bond(real[x], real[y], btype=rng.choice(list(BondType)), stereo=rng.choice(list(BondStereo)), f_order=rng.choice([1.0, 1.5]))
        b.attrib["q"] = rng.choice([7, "w"])
        if vals == "rich":
            b.attrib["wbo"], b.attrib["lmo"] = rnd_value(rng, rng.randrange(4)), rnd_value(rng, 4 + rng.randrange(3))
        elif vals and rng.random() < 0.6:
            b.attrib["wbo"] = rnd_value(rng)
        o.append_bond(b)
    o.append_bond(Bond(real[rng.randrange(n)], ap))
    o.attrib["frag"] = k
    if vals == "rich":
        o.attrib["XTB/Conformer_Energies"], o.attrib["history"] = rnd_value(rng, rng.randrange(4)), rnd_value(rng, 4 + rng.randrange(3))
    elif vals:
        o.attrib["XTB/Conformer_Energies"] = rnd_value(rng)
    return o, ap


def designate(s, ap, kind):
    """The attachment point in one of the AtomLike forms the API accepts."""
    i = next(k for k, a in enumerate(s.atoms) if a is ap)
    return {"atom": ap, "index": i, "negindex": i - s.n_atoms, "label": ap.label, "element": ap.element}[kind]


# ------------------------------------------------------------------ routes
def ctor(ml, dst):
    return {"Promolecule": ml.Promolecule, "Connectivity": ml.Connectivity, "CartesianGeometry": ml.CartesianGeometry,
            "Structure": ml.Structure, "Molecule": ml.Molecule, "ConformerEnsemble": ml.ConformerEnsemble}[dst]


# ---- keyword overrides of a copy-constructor call: dst(source, name=..., coords=..., ...)
OV_SCAL = ["name", "charge", "mult"]
OV_ARR = ["coords", "atomic_charges", "weights"]
OV_MODEL = OV_SCAL + OV_ARR                 # the ones Model/Alias.v `ovr` has a flag for (in that order)
OV_OBS = {"coords": "coords", "atomic_charges": "charges", "weights": "weights"}
TAKES = {"CartesianGeometry": ["coords"], "Structure": ["coords"], "Molecule": ["coords", "atomic_charges"],
         "ConformerEnsemble": ["coords", "atomic_charges", "weights"]}


def ov_applicable(kname, dst):
    """Keywords that replace a field of the result of dst(source of class kname).  A ConformerEnsemble built from
    an object that carries no conformer has zero conformers: there is no array row an argument could replace."""
    arrs = TAKES.get(dst, [])
    if dst == "ConformerEnsemble" and kname not in ("Molecule", "Conformer", "ConformerEnsemble"):
        arrs = []
    return OV_SCAL + arrs


def ovsets(kname, dst):
    """All applicable keywords together, and each one alone (mirrors Model/Alias.v `ovr_sets`)."""
    app = ov_applicable(kname, dst)
    return [tuple(app)] + [(x,) for x in app]


def override_routes(kname):
    return [("ctorw", d, ov) for d in CTOR_DST for ov in ovsets(kname, d)]


def norm_route(route):
    return tuple(tuple(x) if isinstance(x, list) else x for x in route)


def route_ov(route):
    return route[2] if route[0] == "ctorw" else (route[1] if route[0] == "ensfromlistw" else ())


def in_model(route):
    """Routes the Coq model has a constructor for (attrib= and list-of-conformers overrides are judged by the oracle only)."""
    return route[0] != "ensfromlistw" and "attrib" not in route_ov(route)


def make_overrides(ml, rng, src, route):
    """Keyword arguments for the call, all different from what the source holds, truthy (molli reads a falsy
    name / charge / mult as `not given`); arrays are passed as ndarray or as nested lists."""
    import numpy as np
    ov = route_ov(route)
    kw = {}
    shapes = None
    for f in ov:
        if f == "name":
            kw[f] = rng.choice(["given_name", "ov"])
        elif f == "charge":
            kw[f] = rng.choice([2, 3, -2])
        elif f == "mult":
            kw[f] = rng.choice([3, 5])
        elif f == "attrib":
            d = {"given": rng.choice([1, "g"])}
            if src.attrib and rng.random() < 0.7:
                d[next(iter(src.attrib))] = "over"
            kw[f] = d
        else:
            if shapes is None:
                if route[0] == "ctorw":
                    plain = ctor(ml, route[1])(src)          # the shapes the class keeps for this source
                else:
                    plain = ml.ConformerEnsemble(list(src))
                shapes = {g: getattr(plain, g).shape for g in OV_ARR if hasattr(type(plain), g)}
            shp = shapes[f]
            a = (np.arange(int(np.prod(shp)), dtype=float).reshape(shp) * 0.25
                 + (rng.choice([50.0, 64.5, 33.25]) if f == "weights" else rng.choice([-100.0, 50.0, -33.5])))
            kw[f] = a if rng.random() < 0.7 else a.tolist()
    return kw


def route_coq(route):
    k = route[0]
    if k == "ctor":
        return f"(RCtor {KCOQ[route[1]]})"
    if k == "ctorw":
        return f"(RCtorWith {KCOQ[route[1]]} (mk_ovr {' '.join(cq_bool(f in route[2]) for f in OV_MODEL)}))"
    if k == "concat":
        return f"(RConcat {KCOQ[route[1]]} {route[2]})"
    if k == "join":
        return f"(RJoin {KCOQ[route[1]]})"
    return {"evolve": "REvolve", "pickle": "RPickle", "deepcopy": "RDeepcopy", "ensfromlist": "REnsFromList"}[k]


def route_name(route):
    if route[0] == "ctorw":
        return f"ctor-{route[1]}-with-{'+'.join(route[2])}"
    if route[0] == "ensfromlistw":
        return f"ensfromlist-with-{'+'.join(route[1])}"
    return "-".join(str(x) for x in route)


def dst_of(kname, route):
    if route[0] in ("ctor", "ctorw", "concat", "join"):
        return route[1]
    if route[0] in ("ensfromlist", "ensfromlistw"):
        return "ConformerEnsemble"
    return kname


HAS = {"bonds": {"Connectivity", "Structure", "Molecule", "ConformerEnsemble", "Conformer"},
       "coords": {"CartesianGeometry", "Structure", "Molecule", "Conformer"},
       "charges": {"Molecule", "Conformer"}}


def need_of(kname, route):
    """Python mirror of Model/Alias.v `need_of` (used by the oracle only)."""
    d = dst_of(kname, route)
    both = lambda f: kname in HAS[f] and d in HAS[f]
    if route[0] == "concat":
        return dict(bonds=True, coords=True, charges=both("charges"), weights=False, scal=False, attrib=False)
    if route[0] == "join":
        return dict(bonds=True, coords=False, charges=both("charges"), weights=False, scal=False, attrib=False)
    if route[0] == "ensfromlist":
        return dict(bonds=True, coords=False, charges=False, weights=False, scal=True, attrib=True)
    if route[0] == "ensfromlistw":
        return dict(bonds=True, coords=False, charges=False, weights=False, scal="name" not in route[1], attrib=True)
    if route[0] == "ctorw":
        # a field replaced by a keyword argument is not the source's any more; everything else still is
        nd = need_of(kname, ("ctor", route[1]))
        ov = route[2]
        for f, k in OV_OBS.items():
            if f in ov:
                nd[k] = False
        if any(f in ov for f in OV_SCAL):
            nd["scal"] = False          # the scalars that are kept are judged one by one (judge_overrides)
        if "attrib" in ov:
            nd["attrib"] = False
        return nd
    if route[0] == "evolve":
        return dict(bonds=False, coords=False, charges=False, weights=False, scal=False, attrib=False)
    if "ConformerEnsemble" in (kname, d):
        e = kname == d
        return dict(bonds=both("bonds"), coords=e, charges=e, weights=e, scal=True, attrib=True)
    return dict(bonds=both("bonds"), coords=both("coords"), charges=both("charges"), weights=False, scal=True, attrib=True)


def single_routes(kname):
    rs = [("ctor", d) for d in CTOR_DST] + [("pickle",), ("deepcopy",)]
    return rs


def apply_single(ml, src, route, kw=None):
    """Returns (source unit, result unit)."""
    if route[0] == "ctor":
        res = ctor(ml, route[1])(src)
        return Unit(src), Unit(res)
    if route[0] == "ctorw":
        res = ctor(ml, route[1])(src, **kw)
        return Unit(src), Unit(res)
    f = (lambda x: pickle.loads(pickle.dumps(x))) if route[0] == "pickle" else _copy.deepcopy
    res = f(src)
    thr = type(src).__name__ == "Conformer"
    return Unit(src, thr), Unit(res, thr)


def apply_multi(ml, rng, kname, route, pre=lambda units, v: None, desig=None, kwout=None, vals=True, ensure=None, prep=lambda x: x):
    """Derived molecules. Returns (list of source units, VSrc, result unit); `pre` is called with the
    sources and their union object before the route runs; `prep` maps every generated source to the object that is
    handed to the route (a copy of it, along a chain of class-preserving copy routes)."""
    import numpy as np
    from molli.chem import Bond
    cls = ctor(ml, route[1]) if route[0] in ("concat", "join") else None
    if route[0] == "concat":
        srcs = [prep(make_source(ml, rng, kname, vals=vals, ensure=ensure)) for _ in range(route[2])]
        ch = np.concatenate([s.atomic_charges for s in srcs]) if kname == "Molecule" else None
        v = VSrc(kname, [a for s in srcs for a in s.atoms], [b for s in srcs for b in s.bonds],
                 np.vstack([s.coords for s in srcs]), ch, None, None, None, srcs)
        units = [Unit(s) for s in srcs]
        pre(units, v)
        res = cls.concatenate(*srcs)
        return units, v, Unit(res)
    if route[0] == "join":
        def prepj(sa):
            s0, ap0 = sa
            i0 = next(k for k, a in enumerate(s0.atoms) if a is ap0)
            sc = prep(s0)
            return sc, sc.atoms[i0]
        (s1, ap1), (s2, ap2) = prepj(make_joinable(ml, rng, kname, vals)), prepj(make_joinable(ml, rng, kname, vals))
        a1r = next(s1.connected_atoms(ap1)); a2r = next(s2.connected_atoms(ap2))
        atoms = [a for a in itertools.chain(s1.atoms, s2.atoms) if a is not ap1 and a is not ap2]
        bonds = [b for b in itertools.chain(s1.bonds, s2.bonds) if ap1 not in b and ap2 not in b]
        ch = None
        if kname == "Molecule":
            ch = np.array([s.atomic_charges[i] for s, ap in ((s1, ap1), (s2, ap2)) for i, a in enumerate(s.atoms) if a is not ap])
        v = VSrc(kname, atoms, bonds, None, ch, None, None, None, [s1, s2])
        v.new_bond_ends = (a1r, a2r)
        probe = Bond(a1r, a2r)
        v.new_bond_payload = [leaf_key(getattr(probe, f)) for f in BOND_FIELDS]
        units = [Unit(s1), Unit(s2)]
        pre(units, v)
        d1, d2 = desig if desig else (rng.choice(DESIGNATORS), rng.choice(DESIGNATORS))
        v.frags = [(s1, ap1), (s2, ap2)]
        res = cls.join(s1, s2, designate(s1, ap1, d1), designate(s2, ap2, d2), optimize_rotation=rng.random() < 0.3)
        return units, v, Unit(res)
    if route[0] in ("ensfromlist", "ensfromlistw"):
        if kname == "Conformer":
            e = prep(make_source(ml, rng, "ConformerEnsemble", vals=vals, ensure=ensure))
            srcs = [e[i] for i in range(e.n_conformers)]
        else:
            m0 = prep(make_source(ml, rng, "Molecule", vals=vals, ensure=ensure))
            srcs = [m0]
            for c in range(rng.randrange(0, 3)):
                mc = ml.Molecule(m0)
                mc.coords = m0.coords + (c + 1)
                srcs.append(mc)
        u0 = Unit(srcs[0])
        v = VSrc(kname, list(srcs[0].atoms), list(srcs[0].bonds), None, None, None, srcs[0].attrib, u0.scal(), srcs)
        units = [Unit(s) for s in srcs]
        kw = make_overrides(ml, rng, srcs, route) if route[0] == "ensfromlistw" else {}
        if kwout is not None:
            kwout.update(kw)
        pre(units, v)
        res = ml.ConformerEnsemble(list(srcs), **kw)
        return units, v, Unit(res)
    raise AssertionError(route)


# ------------------------------------------------------------------ tie T: the alias row of one copy
def same_leafs(a, b, fields):
    return all(leaf_key(getattr(a, f)) == leaf_key(getattr(b, f)) for f in fields)


def st_dict(res_d, src_d):
    if src_d is not None and res_d is src_d:
        return "Shared"
    rk = [(leaf_key(k), leaf_key(v)) for k, v in res_d.items()]
    if src_d is None:
        return "Reset" if not rk else "Odd"
    sk = [(leaf_key(k), leaf_key(v)) for k, v in src_d.items()]
    if rk == sk:
        return "Copied"
    return "Reset" if not rk else "Odd"


def st_vals(res_d, src_d):
    """The mutable VALUES of a copied dictionary against the source's: VFresh (no object in common, nested ones
    included, equal content) / VShared (the very objects) / VPart (some of each) / VOdd (other content); None when the
    source dictionary holds no mutable value (nothing to judge)."""
    if src_d is None:
        return None
    sc, sm = dict_store(src_d)
    if not sm:
        return None
    rc, rm = dict_store(res_d)
    if rc != sc or len(rm) != len(sm):
        return "VOdd"
    common = [any(same_obj(x, y) for y in sm) for x in rm]
    if all(common):
        return "VShared"
    return "VPart" if any(common) else "VFresh"


def _join_vst(vs):
    vs = {v for v in vs if v is not None}
    if not vs:
        return None             # nothing mutable to hand out: nothing to judge
    if len(vs) == 1:
        return next(iter(vs))
    return "VOdd" if "VOdd" in vs else "VPart"


def st_parent(xs, res_obj, src_parents):
    out = set()
    for x, sp in zip(xs, src_parents):
        try:
            p = x.parent
        except AttributeError:
            out.add("RMissing"); continue
        if p is res_obj:
            out.add("RSelf")
        elif p is None:
            out.add("RNone")
        elif sp is not None and p is sp:
            out.add("RKeep")
        else:
            out.add("ROdd")
    if not out:
        return "RSelf"          # nothing to judge (no atoms / bonds)
    return out.pop() if len(out) == 1 else "ROdd"


def st_arr(res_a, src_a):
    import numpy as np
    if res_a is None:
        return "AAbsent"
    if src_a is None:
        return "AGiven"
    if np.shares_memory(res_a, src_a):
        return "AShared"
    if flat(res_a) == flat(src_a):
        return "ACopied"
    return "AGiven"


def _parent_of(x):
    try:
        return x.parent
    except AttributeError:
        return None


def src_view(srcu_or_v):
    """(atoms list object or None, atoms, bonds list object or None, bonds or None, coords, charges, weights, attrib, scal)"""
    s = srcu_or_v
    if isinstance(s, VSrc):
        return (None, s.atoms, None, s.bonds, s.coords, s.charges, s.weights, s.attrib_d, s.scal_v)
    bl = s.bonds_list()
    return (s.atoms_list(), list(s.atoms_list()), bl, None if bl is None else list(bl), s.arr("_coords"),
            s.arr("_atomic_charges"), s.arr("_weights"), s.attrib(), s.scal())


def observe_row(src, resu):
    """The alias row of a copy, as a dict of Coq constructor names."""
    sal, satoms, sbl, sbonds, sco, sch, swe, sat, ssc = src_view(src)
    ral, ratoms = resu.atoms_list(), list(resu.atoms_list())
    row = {}
    row["alist"] = "Shared" if (sal is not None and ral is sal) else ("Copied" if len(ratoms) == len(satoms) else "Odd")
    ident = [x is y for x, y in zip(ratoms, satoms)]
    foreign = any(any(x is y for y in satoms) for x in ratoms)
    if len(ratoms) != len(satoms):
        row["atom"] = "Odd"
    elif ratoms and all(ident):
        row["atom"] = "Shared"
    elif not foreign and all(same_leafs(x, y, ATOM_FIELDS) for x, y in zip(ratoms, satoms)):
        row["atom"] = "Copied"
    else:
        row["atom"] = "Odd"
    ds = {st_dict(x.attrib, y.attrib) for x, y in zip(ratoms, satoms)}
    if any(x.attrib is y.attrib for x in ratoms for y in satoms):
        ds.add("Shared")
    row["aattrib"] = _join_st(ds)
    row["avals"] = _join_vst(st_vals(x.attrib, y.attrib) for x, y in zip(ratoms, satoms))
    row["aparent"] = st_parent(ratoms, resu.read, [_parent_of(y) for y in satoms])
    rbl = resu.bonds_list()
    if rbl is None:
        row["bonds"] = None
    else:
        rbonds = list(rbl)
        sb = sbonds or []
        if hasattr(src, "new_bond_ends") and len(rbonds) == len(sb) + 1:      # join: the new bond is judged by the oracle
            rbonds = rbonds[:-1]
        b = {}
        b["list"] = "Shared" if (sbl is not None and rbl is sbl) else ("Copied" if len(rbonds) == len(sb) else "Odd")
        if len(rbonds) != len(sb):
            b["obj"] = "Odd"
        elif rbonds and all(x is y for x, y in zip(rbonds, sb)):
            b["obj"] = "Shared"
        elif not any(any(x is y for y in sb) for x in rbonds) and all(same_leafs(x, y, BOND_FIELDS) for x, y in zip(rbonds, sb)):
            b["obj"] = "Copied"
        else:
            b["obj"] = "Odd"
        ds = {st_dict(x.attrib, y.attrib) for x, y in zip(rbonds, sb)}
        if any(x.attrib is y.attrib for x in rbonds for y in sb):
            ds.add("Shared")
        b["attrib"] = _join_st(ds)
        b["vals"] = _join_vst(st_vals(x.attrib, y.attrib) for x, y in zip(rbonds, sb))
        b["parent"] = st_parent(rbonds, resu.read, [_parent_of(y) for y in sb])
        es = set()
        for x, y in zip(rbonds, sb):
            for e_r, e_s in ((x.a1, y.a1), (x.a2, y.a2)):
                i = next((k for k, a in enumerate(satoms) if a is e_s), None)
                if e_r is e_s:
                    es.add("EKeep" if row["atom"] != "Shared" else "ERemap")
                elif i is not None and i < len(ratoms) and e_r is ratoms[i]:
                    es.add("ERemap")
                else:
                    es.add("EOdd")
        b["ends"] = "ERemap" if not es else (es.pop() if len(es) == 1 else "EOdd")
        row["bonds"] = b
    row["coords"] = st_arr(resu.arr("_coords"), sco)
    row["charges"] = st_arr(resu.arr("_atomic_charges"), sch)
    row["weights"] = st_arr(resu.arr("_weights"), swe)
    row["attrib"] = st_dict(resu.attrib(), sat)
    row["vals"] = _join_vst([st_vals(resu.attrib(), sat)]) if row["attrib"] in ("Copied", "Shared") else None
    row["scal"] = (ssc is not None and resu.scal() == ssc)
    return row


def _join_st(ds):
    if not ds:
        return "Copied"
    if len(ds) == 1:
        return next(iter(ds))
    if ds == {"Copied", "Reset"}:       # an empty source dict reads as either
        return "Copied"
    return "Odd"


def row_term(r):
    b = r["bonds"]
    vt = lambda x: x or "VFresh"        # no mutable value met on any instrumented source: nothing is handed out
    bt = "None" if b is None else f"(Some (mk_brow {b['list']} {b['obj']} {b['attrib']} {b['parent']} {b['ends']} {vt(b['vals'])}))"
    return (f"(mk_row {r['alist']} {r['atom']} {r['aattrib']} {r['aparent']} {bt} {r['coords']} {r['charges']} "
            f"{r['weights']} {r['attrib']} {cq_bool(r['scal'])} {vt(r['avals'])} {vt(r['vals'])})")


def merge_rows(rows):
    """Rows observed on several instrumented sources must agree; where they do not the entry is Odd."""
    r0 = rows[0]
    for r in rows[1:]:
        if r != r0:
            out = json.loads(json.dumps(r0))
            for k in r0:
                if r[k] != r0[k]:
                    if k == "bonds":
                        if r0[k] is None or r[k] is None:
                            out[k] = {"list": "Odd", "obj": "Odd", "attrib": "Odd", "parent": "ROdd", "ends": "EOdd", "vals": "VOdd"}
                        else:
                            for kk in r0[k]:
                                if r[k][kk] != r0[k][kk]:
                                    out[k][kk] = {"parent": "ROdd", "ends": "EOdd", "vals": _join_vst([r[k][kk], r0[k][kk]])}.get(kk, "Odd")
                    elif k == "scal":
                        out[k] = False
                    elif k == "aparent":
                        out[k] = "ROdd"
                    elif k in ("coords", "charges", "weights"):
                        out[k] = "AGiven" if {r[k], r0[k]} == {"AGiven", "ACopied"} else "AShared"
                    elif k in ("vals", "avals"):
                        out[k] = _join_vst([r[k], r0[k]])
                    else:
                        out[k] = "Odd"
            r0 = out
    return r0


def lone_row(ml, kind, route, rng):
    """Atom / Bond copied on their own."""
    from molli.chem import Atom, Bond
    m = make_source(ml, rng, "Molecule", n=3, rich=True, vals="rich")
    x = m.atoms[1] if kind == "Atom" else m.bonds[0]
    if route[0] == "evolve":
        y = x.evolve()
    elif route[0] == "pickle":
        y = pickle.loads(pickle.dumps(x))
    else:
        y = _copy.deepcopy(x)

    def par(z):
        try:
            p = z.parent
        except AttributeError:
            return "RMissing"
        return "RNone" if p is None else ("RKeep" if p is x.parent else "ROdd")
    obj = "Shared" if y is x else ("Copied" if same_leafs(x, y, ATOM_FIELDS if kind == "Atom" else BOND_FIELDS) else "Odd")
    att = st_dict(y.attrib, x.attrib)
    vst = _join_vst([st_vals(y.attrib, x.attrib)])
    if kind == "Atom":
        return dict(alist="Copied", atom=obj, aattrib=att, aparent=par(y), bonds=None, coords="AAbsent", charges="AAbsent",
                    weights="AAbsent", attrib="Copied", scal=True, avals=vst, vals=None)
    ends = {("EKeep" if (e is f) else ("ERemap" if same_leafs(e, f, ATOM_FIELDS) and e.attrib is not f.attrib else "EOdd"))
            for e, f in ((y.a1, x.a1), (y.a2, x.a2))}
    # the end atoms a pickled / deep-copied bond brings along are judged with it (an evolved bond keeps the source's atoms)
    evst = None if route[0] == "evolve" else _join_vst(st_vals(e.attrib, f.attrib) for e, f in ((y.a1, x.a1), (y.a2, x.a2)))
    return dict(alist="Copied", atom="Copied", aattrib="Copied", aparent="RSelf",
                bonds=dict(list="Copied", obj=obj, attrib=att, parent=par(y), ends=ends.pop() if len(ends) == 1 else "EOdd", vals=vst),
                coords="AAbsent", charges="AAbsent", weights="AAbsent", attrib="Copied", scal=True, avals=evst, vals=None)


MULTI = [("Structure", ("concat", "Structure", 2)), ("Molecule", ("concat", "Molecule", 2)), ("Molecule", ("concat", "Molecule", 1)),
         ("Molecule", ("concat", "Molecule", 3)), ("Structure", ("join", "Structure")), ("Molecule", ("join", "Molecule")),
         ("Molecule", ("ensfromlist",)), ("Conformer", ("ensfromlist",))]


def gen_table(ctx):
    """Tie T: run every route on instrumented sources (fixed seed: the table is a function of /repo only)."""
    import random
    import molli as ml
    rows, raising = [], []
    for kname in SOURCES:
        for route in single_routes(kname) + override_routes(kname):
            obs = []
            err = None
            for s in range(3):
                rng = random.Random(9000 + s)
                src = make_source(ml, rng, kname, n=2 + s, rich=True, vals="rich")
                try:
                    su, ru = apply_single(ml, src, route, make_overrides(ml, rng, src, route))
                except Exception as e:   # noqa
                    err = type(e).__name__
                    break
                obs.append(observe_row(su, ru))
            if err:
                raising.append((kname, route, err))
            else:
                rows.append((kname, route, merge_rows(obs)))
    for kname, route in MULTI:
        obs = []
        err = None
        for s in range(3):
            rng = random.Random(9100 + s)
            try:
                _, v, ru = apply_multi(ml, rng, kname, route, vals="rich")
            except Exception as e:   # noqa
                err = type(e).__name__
                break
            obs.append(observe_row(v, ru))
        if err:
            raising.append((kname, route, err))
        else:
            rows.append((kname, route, merge_rows(obs)))
    for kind in ("Atom", "Bond"):
        for route in (("evolve",), ("pickle",), ("deepcopy",)):
            try:
                rows.append((kind, route, lone_row(ml, kind, route, random.Random(9200))))
            except Exception as e:   # noqa
                raising.append((kind, route, type(e).__name__))
    txt = ("(* REGENERATED on every run by harness/c06.py: the alias row of every copy route of /repo,\n"
           "   observed with `is` / shares_memory on instrumented sources -- do not edit. *)\n"
           "From Coq Require Import List ZArith. Import ListNotations.\nFrom Molli Require Import Model.Alias.\n\n"
           "Definition table : list entry := [\n  "
           + ";\n  ".join(f"({KCOQ[k]}, {route_coq(r)}, {row_term(x)})" for k, r, x in rows) + "\n].\n\n"
           "(* routes that raise on these sources (not copies): "
           + "; ".join(f"{k} {route_name(r)} {e}" for k, r, e in raising) + " *)\n")
    vlib.write_if_changed(os.path.join(vlib.COQ, "Gen", "CopyRoutes.v"), txt)
    return rows, raising


# ------------------------------------------------------------------ mutations
VAL_MUTS = {"attrib_val": "obj", "atom_attrib_val": "atom", "bond_attrib_val": "bond"}


def _holds_values(d):
    return any(is_mut(v) for v in d.values())


def mutations_for(unit):
    o = unit.read
    ms = ["atom_field", "atom_attrib", "attrib"]
    if _holds_values(o.attrib):
        ms += ["attrib_val"]
    if any(_holds_values(a.attrib) for a in o.atoms):
        ms += ["atom_attrib_val"]
    if _has_bonds(o) and any(_holds_values(b.attrib) for b in o.bonds):
        ms += ["bond_attrib_val"]
    if _has_bonds(o) and len(o.bonds):
        ms += ["bond_field", "bond_attrib"]
    if _pub(o, "coords") and o.n_atoms:
        ms += ["coord", "coords_assign"]
    if _pub(o, "atomic_charges") and o.n_atoms:
        ms += ["charge"]
    if _pub(o, "weights"):
        ms += ["weight"]
    if unit.kname != "Conformer":
        ms += ["scal"]
    if o.n_atoms and unit.kname != "Conformer":
        ms += ["del_atom"]
    if unit.kname in ("Structure", "Molecule"):
        ms += ["add_h", "label_atoms"]
    return ms


def do_mutation(unit, mut, rng, enc):
    """Performs the mutation on the real object. Returns the Coq `op` term (or None for library routines)."""
    import numpy as np
    from molli.chem import AtomType, BondType
    o = unit.read
    if mut == "atom_field":
        j = rng.randrange(o.n_atoms) if o.n_atoms else None
        if j is None:
            return None
        a = o.atoms[j]
        f = rng.choice(["label", "isotope", "formal_charge", "atype", "element"])
        setattr(a, f, {"label": "mut!", "isotope": 99, "formal_charge": 7, "atype": AtomType.Dummy, "element": "Xe"}[f])
        return lambda: f"(OAtomPay {j} {enc.zs([leaf_key(getattr(a, x)) for x in ATOM_FIELDS])})"
    if mut == "bond_field":
        j = rng.randrange(len(o.bonds))
        b = o.bonds[j]
        f = rng.choice(["label", "btype", "f_order"])
        setattr(b, f, {"label": "bmut", "btype": BondType.Dummy, "f_order": 2.75}[f])
        return lambda: f"(OBondPay {j} {enc.zs([leaf_key(getattr(b, x)) for x in BOND_FIELDS])})"
    if mut in ("coord", "charge", "weight"):
        arr = {"coord": o.coords, "charge": getattr(o, "atomic_charges", None), "weight": getattr(o, "weights", None)}[mut]
        if arr is None or arr.size == 0:
            return None
        i = rng.randrange(arr.size)
        arr.flat[i] = arr.flat[i] + 1.0 if mut != "charge" else 0.8125
        nm = {"coord": "OCoord", "charge": "OCharge", "weight": "OWeight"}[mut]
        v = float(arr.flat[i])
        return lambda: f"({nm} {i} {Zt(enc.it(leaf_key(v)))})"
    if mut in VAL_MUTS:
        # an IN-PLACE edit of a mutable value stored in an attrib dictionary (the dictionary itself is not touched)
        if mut == "attrib_val":
            d, w = o.attrib, "WObj"
        elif mut == "atom_attrib_val":
            j = rng.choice([i for i, a in enumerate(o.atoms) if _holds_values(a.attrib)])
            d, w = o.atoms[j].attrib, f"(WAtom {j})"
        else:
            j = rng.choice([i for i, b in enumerate(o.bonds) if _holds_values(b.attrib)])
            d, w = o.bonds[j].attrib, f"(WBond {j})"
        kind = edit_value_in_place(d, rng)
        return ("vop:" + str(kind), lambda: f"(VEdit {w} {enc.zs(dict_store(d)[0])})")
    if mut == "attrib":
        d = o.attrib
        leafs = [k for k, v in d.items() if not is_mut(v)]       # a key that holds a mutable value is not rebound / deleted here
        if leafs and rng.random() < 0.4:
            del d[leafs[0]]
        else:
            d["added"] = rng.choice([5, "five"])
        return lambda: f"(OAttrib {enc.dct(d)})"
    if mut == "atom_attrib":
        if not o.n_atoms:
            return None
        j = rng.randrange(o.n_atoms)
        d = o.atoms[j].attrib
        leafs = [k for k, v in d.items() if not is_mut(v)]
        if leafs and rng.random() < 0.4:
            del d[leafs[0]]
        else:
            d["a_added"] = 11
        return lambda: f"(OAtomAttrib {j} {enc.dct(d)})"
    if mut == "bond_attrib":
        j = rng.randrange(len(o.bonds))
        d = o.bonds[j].attrib
        d["b_added"] = "bb"
        return lambda: f"(OBondAttrib {j} {enc.dct(d)})"
    if mut == "scal":
        f = rng.choice(["name", "charge", "mult"])
        setattr(o, f, {"name": "renamed", "charge": 5, "mult": 4}[f])
        return lambda: f"(OScal {enc.zs(unit.scal())})"
    # library routines: the change is whatever the re-read finds
    try:
        if mut == "coords_assign":
            o.coords = np.asarray(o.coords) * 2.0 + 1.0
        elif mut == "del_atom":
            o.del_atom(rng.randrange(o.n_atoms))
        elif mut == "add_h":
            o.add_implicit_hydrogens()
        elif mut == "label_atoms":
            o.label_atoms()
    except Exception:   # noqa  -- a routine that fails half-way is still a mutation
        pass
    return None


# ------------------------------------------------------------------ oracle helpers
def containers(unit):
    """Every mutable container of an object, by kind (for the `is` / shares_memory check)."""
    out = {"atom list": [unit.atoms_list()], "atom": list(unit.atoms_list()), "atom attrib": [a.attrib for a in unit.atoms_list()],
           "attrib": [unit.attrib()]}
    bl = unit.bonds_list()
    if bl is not None:
        out["bond list"] = [bl]
        out["bond"] = list(bl)
        out["bond attrib"] = [b.attrib for b in bl]
        out["bond end"] = [e for b in bl for e in (b.a1, b.a2)]
        out["bond end attrib"] = [e.attrib for b in bl for e in (b.a1, b.a2)]
    arrs = [unit.arr(n) for n in ("_coords", "_atomic_charges", "_weights")]
    out["array"] = [a for a in arrs if a is not None]
    return out


def value_members(unit):
    """Every mutable object stored (at any depth) in an attrib dictionary of the object, its atoms, its bonds."""
    ds = [("attrib-value", unit.attrib())] + [("atom-attrib-value", a.attrib) for a in unit.atoms_list()]
    bl = unit.bonds_list()
    if bl is not None:
        ds += [("bond-attrib-value", b.attrib) for b in bl]
        ds += [("atom-attrib-value", e.attrib) for b in bl for e in (b.a1, b.a2)]
    out = []
    for k, d in ds:
        ms = []
        deep_members(list(d.values()), ms, set())
        out += [(k, x) for x in ms[1:]]       # (ms[0] is the scratch list itself)
    return out


def shared_values(u1, u2):
    """Kinds of attribute values of u1 that ARE objects u2 holds (as values) or consists of (its atoms, bonds, dictionaries)."""
    m2 = value_members(u2)
    own2 = {id(x) for xs in containers(u2).values() for x in xs}
    return sorted({k for k, x in value_members(u1) if id(x) in own2 or any(same_obj(x, y) for _, y in m2)})


def shared_kinds(u1, u2):
    import numpy as np
    c1, c2 = containers(u1), containers(u2)
    bad = []
    ids2 = {}
    for k, xs in c2.items():
        if k != "array":
            for x in xs:
                ids2.setdefault(id(x), k)
    for k, xs in c1.items():
        if k == "array":
            if any(np.shares_memory(a, b) for a in xs for b in c2.get("array", [])):
                bad.append("array")
        elif any(id(x) in ids2 for x in xs):
            bad.append(k.replace(" ", "-"))
    return sorted(set(bad))


def diff_fields(a, b):
    return sorted(k for k in a if a[k] != b.get(k))


# ------------------------------------------------------------------ one case
class CaseOut:
    def __init__(self):
        self.term = None
        self.violations = []     # (signature, text)
        self.key = None
        self.vals = True
        self.vkind = None       # kind of attribute value edited in place (ndarray / list / dict), if any
        self.exotic = []        # kinds of attribute values beyond numbers / strings / arrays / lists / dicts the sources hold
        self.chain = None       # the chain of copy routes the source of the case went through, if any


DEEP_ROUTES = ("pickle", "deepcopy")      # routes whose contract is a deep copy (Model/Alias.v deep_route)
TRACK_VALS = {}                            # (kname, route) -> False when the table row says VPart somewhere (the model has
                                           # one store per dictionary: it cannot follow a partly shared one)


def apply_step(ml, obj, step):
    """One copy route of a chain applied to an object: ("ctor", dst) / ("pickle",) / ("deepcopy",)."""
    if step[0] == "ctor":
        return ctor(ml, step[1])(obj)
    return pickle.loads(pickle.dumps(obj)) if step[0] == "pickle" else _copy.deepcopy(obj)


def chain_classes(k0, prefix):
    """Classes along a chain: [k0, class after step 1, ...]."""
    ks = [k0]
    for st in prefix:
        ks.append(dst_of(ks[-1], st))
    return ks


def reduce_prefix(k0, prefix):
    """The chain without its class-preserving steps (pickle, deepcopy, copy-constructor of the object's own class): a copy
    that is equal to its source in every observable field can stand in for it, so the reduced chain must give the same."""
    out, k = [], k0
    for st in prefix:
        d = dst_of(k, st)
        if st[0] in DEEP_ROUTES or d == k:
            continue
        out.append(st)
        k = d
    return tuple(out)


def chain_name(k0, prefix):
    return ">".join([k0] + [route_name(st) for st in prefix])


def run_case(ml, rng, kname, route, mut_side, want_mut=None, emit=True, desig=None, vals=None, prefix=(), exotic=False, kinds=None):
    """One case.  kname is the class of the GENERATED source; with a `prefix` (a chain of copy routes) the route under test is
    applied to the copy at the end of the chain.  A case that raises although the same case without what is special about
    it (ordinary attribute values / the chain without its class-preserving copies) runs is a violation: legal attribute
    values and the history of an object as a copy must not make a copy route fail."""
    import random
    prefix = tuple(norm_route(st) for st in prefix)
    if not prefix and not exotic:
        return _run_case(ml, rng, kname, route, mut_side, want_mut, emit, desig, vals)
    st0 = rng.getstate()
    try:
        return _run_case(ml, rng, kname, route, mut_side, want_mut, emit, desig, vals, prefix, exotic, kinds)
    except Exception as e:   # noqa
        err = e
    twins = []
    if exotic:
        twins.append(("with ordinary attribute values", prefix, False))
    if reduce_prefix(kname, prefix) != prefix:
        twins.append((f"on the source itself ({chain_name(kname, reduce_prefix(kname, prefix))})", reduce_prefix(kname, prefix), exotic))
    for what, pf, ex in twins:
        r2 = random.Random()
        r2.setstate(st0)
        try:
            _run_case(ml, r2, kname, route, mut_side, want_mut, False, desig, vals, pf, ex, kinds)
        except Exception:   # noqa
            continue
        out = CaseOut()
        kc = chain_classes(kname, prefix)[-1]
        out.key = (kc, route_name(norm_route(route)), "raises", mut_side, 0)
        out.chain, out.exotic = chain_name(kname, prefix) if prefix else None, list(kinds or ["?"]) if exotic else []
        out.violations.append((f"C06:{kc}:{route_name(norm_route(route))}:raises:{type(err).__name__}"
                               + (f":after:{chain_name(kname, prefix)}" if prefix else "") + (":exotic-values" if exotic else ""),
                               f"{route_name(norm_route(route))} of a {kc}" + (f" that is the copy {chain_name(kname, prefix)}" if prefix else "")
                               + (" holding attribute values of other types" if exotic else "")
                               + f" raised {type(err).__name__}: {str(err)[:160]} -- the same {what} runs"))
        return out
    raise err


def _run_case(ml, rng, kname, route, mut_side, want_mut=None, emit=True, desig=None, vals=None, prefix=(), exotic=False, kinds=None):
    """Drives one (source class, route, mutation) triple through the real code.
    Returns CaseOut with the Coq term (if emit) and the oracle's verdicts."""
    out = CaseOut()
    route = norm_route(route)
    deep = route[0] in DEEP_ROUTES
    k0 = kname
    kname = chain_classes(k0, prefix)[-1]       # the class the route under test is applied to
    if vals is None:
        vals = TRACK_VALS.get((kname, route), True) and all(TRACK_VALS.get((k, st), True) for k, st in zip(chain_classes(k0, prefix), prefix))
    out.vals = vals
    ensure = VAL_MUTS.get(want_mut) if vals else None
    tag = f"C06:{kname}:{route_name(route)}"
    ctag = tag + (f":after:{chain_name(k0, prefix)}" if prefix else "")
    if prefix and k0 == "Conformer":
        emit = False                              # chains that start from a conformer: oracle only
    origs = []                                    # (object, position in the chain) of everything that precedes a source of the case

    def prep(src):
        if exotic:
            out.exotic += decorate_exotic(src, rng, kinds)
        cur = src
        for i, st in enumerate(prefix):
            origs.append((cur, i))
            cur = apply_step(ml, cur, st)
        return cur
    it = Intern()
    enc = Enc(it)
    multi = route[0] in ("concat", "join", "ensfromlist", "ensfromlistw")
    emit = emit and in_model(route)
    kw = {}
    # ---- sources (observed and encoded BEFORE the route runs) and copy
    st = {}

    def pre(units, v):
        st["before"] = [raw_obs(u) for u in units]
        st["origs"] = [Unit(x) for x, _ in origs]
        st["obefore"] = [raw_obs(u) for u in st["origs"]]
        if emit:
            for u in units + st["origs"]:
                enc.reg_unit(u)
            enc.read_all()
            st["root"] = encode_union(enc, v) if v is not None else enc.loc[("o", id(units[0].read), units[0].kname)]
            st["h0"] = enc.read_all()
    if multi:
        srcus, v, resu = apply_multi(ml, rng, kname, route, pre, desig, kwout=kw, vals=vals, ensure=ensure, prep=prep)
    else:
        src = prep(make_source(ml, rng, k0, vals=vals, ensure=ensure))
        kw = make_overrides(ml, rng, src, route)        # before the snapshot: the call under test is the one with the keywords
        pre([Unit(src, route[0] in ("pickle", "deepcopy") and kname == "Conformer")], None)
        srcu, resu = apply_single(ml, src, route, kw)
        srcus, v = [srcu], None
    kw_said = {f: (flat(x) if f in OV_ARR else (dict(x) if f == "attrib" else x)) for f, x in kw.items()}
    before = st["before"]
    need = need_of(kname, route)
    # ---- oracle 1: the copy itself
    ounits = st["origs"]
    opos = [i for _, i in origs]
    out.chain = chain_name(k0, prefix) if prefix else None
    for su, b4 in zip(list(srcus) + ounits, before + st["obefore"]):
        if raw_obs(su) != b4:
            out.violations.append((ctag + ":alters-source", f"{route_name(route)} of a {kname} changed a source"
                                   + (" (or an earlier object of the chain " + out.chain + ")" if prefix else "")
                                   + f": fields {diff_fields(b4, raw_obs(su))}"))
    ro_res = raw_obs(resu)
    if multi:
        judge_derived(out, tag, kname, route, srcus, v, resu, ro_res, need)
    else:
        want, got = strip_obs(raw_obs(srcus[0]), need, deep), strip_obs(ro_res, need, deep)
        for f in diff_fields(want, got):
            out.violations.append((f"{ctag}:{f}-differ", f"{route_name(route)} of a {kname}: `{f}` of the copy differs from the source "
                                   f"({summ(got.get(f))} vs {summ(want.get(f))})"))
    if prefix and not multi:
        # (a) the whole chain against the object it started from: every field all classes on the way have is the original's
        steps = list(zip(chain_classes(k0, prefix), prefix)) + [(kname, route)]
        nds = [need_of(k, r) for k, r in steps]
        need_c = {f: all(nd[f] for nd in nds) for f in nds[0]}
        all_deep = all(r[0] in DEEP_ROUTES for _, r in steps)
        o0 = Unit(origs[0][0], all_deep and k0 == "Conformer")
        want, got = strip_obs(raw_obs(o0), need_c, all_deep), strip_obs(ro_res, need_c, all_deep)
        for f in diff_fields(want, got):
            out.violations.append((f"{ctag}:{f}-differ-from-original", f"{out.chain}>{route_name(route)}: `{f}` of the result differs from the "
                                   f"object the chain started from ({summ(got.get(f))} vs {summ(want.get(f))})"))
        # (b) a copy stands in for its source: the chain without its class-preserving copies gives the same result
        red = reduce_prefix(k0, prefix)
        if red != prefix:
            ref = origs[0][0]
            for stp in red:
                ref = apply_step(ml, ref, stp)
            try:
                _, refu = apply_single(ml, ref, route, kw)
                ro_ref = raw_obs(refu)
            except Exception as e:   # noqa
                ro_ref = None
                out.violations.append((f"{ctag}:source-raises:{type(e).__name__}", f"{route_name(route)} works on the copy {out.chain} but "
                                       f"raises {type(e).__name__} on {chain_name(k0, red)}"))
            if ro_ref is not None:
                if any(stp[0] == "ctor" for stp in prefix if stp not in red):
                    # a one-level copy among the dropped steps: a stored Atom / Bond still is the earlier object's (VShared)
                    ro_ref, ro_res_c = dict(ro_ref, typed=None), dict(ro_res, typed=None)
                else:
                    ro_res_c = ro_res
                for f in diff_fields(ro_ref, ro_res_c):
                    out.violations.append((f"{ctag}:{f}-differ-from-direct", f"{route_name(route)} of the copy {out.chain} gives another `{f}` than "
                                           f"{route_name(route)} of {chain_name(k0, red)} ({summ(ro_res.get(f))} vs {summ(ro_ref.get(f))})"))
    if kw:
        judge_overrides(out, tag, route, before[0], ro_res, kw_said, keep_scal=(route[0] == "ctorw"))
    pq = {q for _, _, q in ro_res["atoms"]} | ({q for *_, q in ro_res["bonds"]} if ro_res["bonds"] else set())
    if pq - {"QSelf"}:
        out.violations.append((f"{ctag}:parent-{sorted(pq - {'QSelf'})[0][1:].lower()}",
                               f"{route_name(route)} of a {kname}: atoms/bonds of the result do not point to it as parent ({sorted(pq)})"))
    # which earlier objects are separated from the result by a deep copy somewhere on the way
    deep_of = {id(su): deep for su in srcus}
    for ou, i in zip(ounits, opos):
        deep_of[id(ou)] = deep or any(stp[0] in DEEP_ROUTES for stp in prefix[i:])
    for su in list(srcus) + ounits:
        sk = shared_kinds(resu, su)
        for k in sk:
            out.violations.append((f"{ctag}:shares-{k}", f"{route_name(route)} of a {kname}: the result shares its {k} container(s) with a source"
                                   + (f" or an earlier object of the chain {out.chain}" if prefix else "")))
        if deep_of[id(su)]:
            # a deep copy hands out attribute values of its own, nested ones included
            for k in shared_values(resu, su):
                out.violations.append((f"{ctag}:shares-{k}", f"{route_name(route)} of a {kname}: a mutable value stored in an attrib dictionary "
                                       f"of the result ({k}) IS the source's object (a deep copy must not share it)"))
    # ---- heap encoding of the copy (tie H)
    if emit:
        root, h0 = st["root"], st["h0"]
        base = len(h0)
        n = len(v.atoms) if multi else len(srcus[0].atoms_list())
        sb = (v.bonds if multi else srcus[0].bonds_list())
        m = len(sb) if sb is not None else 0
        if multi and hasattr(v, "new_bond_ends"):
            m += 1
        layout(enc, resu, base, n, m)
        enc.pad(base + 8 + 3 * n + 3 * m)
        h1 = enc.read_all()
        watch_units = list(srcus) + ounits + [resu]
        w1 = [(enc.loc[("o", id(u.read), u.kname)], raw_obs(u)) for u in watch_units]
    # ---- mutation
    units = list(srcus) + [resu]
    mu = resu if mut_side == "copy" else rng.choice(list(srcus) + ounits + ounits)
    # the property relates a result and its sources (sources may share among themselves, e.g. conformers of one ensemble);
    # with a chain: the result and every earlier object of the chain
    others = (list(srcus) + ounits) if mu is resu else [resu]
    menu = mutations_for(mu)
    mut = want_mut if (want_mut in menu) else rng.choice(menu)
    snap = [raw_obs(u) for u in others]
    opf = do_mutation(mu, mut, rng, enc)
    vopf = None
    if isinstance(opf, tuple):
        out.vkind = opf[0][4:]
        vopf, opf = opf[1], None
    for u, s in zip(others, snap):
        now = raw_obs(u)
        pair_deep = deep_of[id(u)] if mu is resu else deep_of[id(mu)]
        if not pair_deep:
            # one-level routes only between the two: they hold the same value objects (a stored Atom / Bond is the source's);
            # what such a value shows is not the copy's own state
            now, s = dict(now, typed=None, typed0=None), dict(s, typed=None, typed0=None)
        if mut in VAL_MUTS and not pair_deep:
            # a one-level route hands out the source's value objects: the in-place edit of such a value is not held
            # against it; everything else of the other side must still be as it was
            now, s = no_stores(now), no_stores(s)
        if now != s:
            side = "copy" if mut_side == "copy" else "source"
            out.violations.append((f"{ctag}:leak:{mut}:{side}",
                                   f"after {route_name(route)} of a {kname}, `{mut}` applied to the {side} changed the other object: fields {diff_fields(s, now)}"))
    out.key = (kname, route_name(route), mut, mut_side, len(resu.atoms_list()))
    if emit:
        h2 = enc.read_all()
        prims = [f"(PAlloc CFree)" for _ in range(len(h1), len(h2))]
        prims += [f"(PWrite {l} {c})" for l, c in enumerate(h2) if l >= len(h1) or c != h1[l]]
        w2 = [(enc.loc[("o", id(u.read), u.kname)], raw_obs(u)) for u in watch_units]
        # `given` is read from the h1 snapshot, i.e. before the mutation -- recompute from w1
        ro1 = w1[-1][1]
        # with keyword overrides `given` is what the CALL said (scalars not named are ignored by pick_scal), not what
        # the result holds: the model has to predict the result from the source and the arguments
        g_scal = [leaf_key(kw.get(f)) for f in OV_SCAL] if route[0] == "ctorw" else ro1['scal']
        g_arr = {k: (kw_said[f] if f in kw_said else (ro1[k] or [])) for f, k in OV_OBS.items()}
        given = (f"(mk_given {enc.zs(g_scal)} {enc.zs(g_arr['coords'])} {enc.zs(g_arr['charges'])} "
                 f"{enc.zs(g_arr['weights'])})")
        op_t = "None" if opf is None else f"(Some {opf()})"
        vop_t = "None" if vopf is None else f"(Some {vopf()})"
        wt = lambda w: cq_list(f"({l}, {obs_term(o, it)})" for l, o in w)
        dt = lambda w: cq_list(f"({l}, {stores_term(o, it)})" for l, o in w)
        out.term = (f"(mk_case {KCOQ[kname]} {route_coq(route)} {given}\n   {heap_term(h0)}\n   {root}\n   {heap_term(h1)}\n   {wt(w1)}\n"
                    f"   {enc.loc[('o', id(mu.read), mu.kname)]} {op_t} {vop_t}\n   {cq_list(prims)}\n   {wt(w2)}\n   {dt(w1)}\n   {dt(w2)})")
    return out


def judge_overrides(out, tag, route, src_before, ro_res, said, keep_scal):
    """dst(source, <keywords>): a field named by the call holds the value of the call, name / charge / mult
    that are not named are the source's (the arrays, bonds and attributes not named are compared by the general
    faithfulness clause under the masked need)."""
    rn = route_name(route)
    for i, f in enumerate(OV_SCAL):
        if f in said:
            if ro_res["scal"][i] != leaf_key(said[f]):
                out.violations.append((f"{tag}:override-lost:{f}", f"{rn}: `{f}` of the result is {ro_res['scal'][i][-1]!r}, the call said {said[f]!r}"))
        elif keep_scal and ro_res["scal"][i] != src_before["scal"][i]:
            out.violations.append((f"{tag}:scal-differ", f"{rn}: `{f}` was not named by the call but differs from the source's "
                                   f"({ro_res['scal'][i][-1]!r} vs {src_before['scal'][i][-1]!r})"))
    for f, k in OV_OBS.items():
        if f in said and ro_res[k] != said[f]:
            out.violations.append((f"{tag}:override-lost:{f}", f"{rn}: `{f}` of the result is not the array the call passed "
                                   f"({summ([x[-1] for x in (ro_res[k] or [])][:6])})"))
    if "attrib" in said:
        got = dict(ro_res["attrib"])
        if any(got.get(leaf_key(k)) != leaf_key(x) for k, x in said["attrib"].items()):
            out.violations.append((f"{tag}:override-lost:attrib", f"{rn}: attrib of the result does not hold the entries the call passed"))
        keep = [(k, x) for k, x in src_before["attrib"] if k not in {leaf_key(q) for q in said["attrib"]}]
        if any(got.get(k) != x for k, x in keep):
            out.violations.append((f"{tag}:attrib-differ", f"{rn}: an attrib entry of the source that the call did not name is missing from the result"))


def summ(x):
    s = repr(x)
    return s if len(s) < 120 else s[:117] + "..."


def encode_union(enc, v):
    """The union object a derived molecule is built from, as synthetic cells appended to the heap."""
    al = enc.synth("(CList " + cq_list(str(enc.reg("atom", a)) for a in v.atoms) + ")")
    bonds = [str(enc.reg("bond", b)) for b in v.bonds]
    if hasattr(v, "new_bond_ends"):
        # join creates one new bond between the two anchor atoms: modelled as a bond of the union object
        d = enc.synth("(CDict [] None)")
        a1r, a2r = v.new_bond_ends
        nb = v.new_bond_payload
        bonds.append(str(enc.synth(f"(CBond {enc.reg('atom', a1r)} {enc.reg('atom', a2r)} {enc.zs(nb)} {d} PNone)")))
    bl = enc.synth("(CList " + cq_list(bonds) + ")")

    def arr(a):
        return "None" if a is None else f"(Some {enc.synth('(CArr ' + enc.zs(flat(a)) + ')')})"
    co, ch, we = arr(v.coords), arr(v.charges), arr(v.weights)
    at = enc.reg("dict", v.attrib_d) if v.attrib_d is not None else enc.synth("(CDict [] None)")
    sc = enc.zs(v.scal_v) if v.scal_v is not None else "[]"
    return enc.synth(f"(CMol {Zt(KCODE[v.kname])} {sc} {al} (Some {bl}) {co} {ch} {we} {at})")


def layout(enc, resu, base, n, m):
    """Give the result's own containers the locations the model allocates for them."""
    enc.pad(base)
    enc.reg_unit(resu, at=base)

    def put(kind, x, at):
        if x is not None and not enc.known(kind, x):
            enc.reg(kind, x, at=at)
    put("list", resu.atoms_list(), base + 1)
    put("list", resu.bonds_list(), base + 2)
    put("arr", resu.arr("_coords"), base + 3)
    put("arr", resu.arr("_atomic_charges"), base + 4)
    put("arr", resu.arr("_weights"), base + 5)
    put("dict", resu.attrib(), base + 6)
    for j, a in enumerate(list(resu.atoms_list())[:n]):
        put("atom", a, base + 7 + j)
        put("dict", a.attrib, base + 7 + n + j)
    bl = resu.bonds_list()
    if bl is not None:
        for j, b in enumerate(list(bl)[:m]):
            put("bond", b, base + 7 + 2 * n + j)
            put("dict", b.attrib, base + 7 + 2 * n + m + j)
    # the stores of the mutable attribute values the result's dictionaries hold (absent when they are the source's objects)
    vb = base + 7 + 2 * n + 2 * m

    def put_store(d, at):
        if not enc.store_known(d):
            enc.reg_store(d, at=at)
    put_store(resu.attrib(), vb)
    for j, a in enumerate(list(resu.atoms_list())[:n]):
        put_store(a.attrib, vb + 1 + j)
    if bl is not None:
        for j, b in enumerate(list(bl)[:m]):
            put_store(b.attrib, vb + 1 + n + j)


def judge_derived(out, tag, kname, route, srcus, v, resu, ro_res, need):
    """Faithfulness of a derived molecule: its atoms / bonds (/ coordinates / charges) are its sources'."""
    rn = route_name(route)
    want_atoms = [([leaf_key(getattr(a, f)) for f in ATOM_FIELDS], [(leaf_key(k), vkey(x)) for k, x in a.attrib.items()]) for a in v.atoms]
    got_atoms = [(p, d) for p, d, _ in ro_res["atoms"]]
    if want_atoms != got_atoms:
        out.violations.append((f"{tag}:atoms-differ", f"{rn}: atoms of the result differ from the sources' atoms"))
    if [tkey(a.attrib) for a in v.atoms] != ro_res["typed0"]["atoms"]:
        out.violations.append((f"{tag}:atom-attrib-value-types-differ", f"{rn}: the values stored in the atoms' attrib dictionaries differ from "
                               "the sources' in type or content"))
    if [tkey(b.attrib) for b in v.bonds] != ro_res["typed0"]["bonds"][:len(v.bonds)]:
        out.violations.append((f"{tag}:bond-attrib-value-types-differ", f"{rn}: the values stored in the bonds' attrib dictionaries differ from "
                               "the sources' in type or content"))
    if need["attrib"] and v.attrib_d is not None and tkey(v.attrib_d) != ro_res["typed0"]["obj"]:
        out.violations.append((f"{tag}:attrib-value-types-differ", f"{rn}: the values of the attrib dictionary differ from the first source's in type or content"))
    if [dict_store(a.attrib)[0] for a in v.atoms] != ro_res["stores"]["atoms"]:
        out.violations.append((f"{tag}:atom-attrib-values-differ", f"{rn}: the values stored in the atoms' attrib dictionaries differ from the sources'"))
    idx = {id(a): i for i, a in enumerate(v.atoms)}
    want_b = [(idx.get(id(b.a1)), idx.get(id(b.a2)), [leaf_key(getattr(b, f)) for f in BOND_FIELDS],
               [(leaf_key(k), vkey(x)) for k, x in b.attrib.items()]) for b in v.bonds]
    got_b = [(i, j, p, d) for i, j, p, d, _ in (ro_res["bonds"] or [])]
    if [dict_store(b.attrib)[0] for b in v.bonds] != ro_res["stores"]["bonds"][:len(v.bonds)]:
        out.violations.append((f"{tag}:bond-attrib-values-differ", f"{rn}: the values stored in the bonds' attrib dictionaries differ from the sources'"))
    if hasattr(v, "new_bond_ends"):
        nb = got_b[-1] if len(got_b) == len(want_b) + 1 else None
        if nb is None or {nb[0], nb[1]} != {idx[id(v.new_bond_ends[0])], idx[id(v.new_bond_ends[1])]}:
            out.violations.append((f"{tag}:new-bond-wrong", f"{rn}: the bond created by join does not connect the two anchor atoms"))
        got_b = got_b[:-1] if nb else got_b
    if want_b != got_b:
        out.violations.append((f"{tag}:bonds-differ", f"{rn}: bonds of the result differ from the sources' bonds"))
    if need["coords"] and ro_res["coords"] != flat(v.coords):
        out.violations.append((f"{tag}:coords-differ", f"{rn}: coordinates of the result are not the sources' coordinates"))
    if need["charges"] and ro_res["charges"] != flat(v.charges):
        out.violations.append((f"{tag}:charges-differ", f"{rn}: partial charges of the result are not the sources' "
                               f"({summ([k[1] for k in (ro_res['charges'] or [])][:6])})"))
    if hasattr(v, "frags") and ro_res["coords"] is not None:
        # join: every kept atom keeps its place inside its fragment (rows matched by the identity of the source atom):
        # fragment 1 is only translated, fragment 2 is moved rigidly
        import numpy as np
        R = np.asarray(resu.read.coords, dtype=float)
        off = 0
        for fi, (s, ap) in enumerate(v.frags):
            keep = [i for i, a in enumerate(s.atoms) if a is not ap]
            S = np.asarray(s.coords, dtype=float)[keep]
            T = R[off:off + len(keep)]
            off += len(keep)
            if T.shape != S.shape:
                out.violations.append((f"{tag}:coords-differ", f"{rn}: fragment {fi + 1} has {len(T)} coordinate rows for {len(S)} kept atoms"))
                continue
            dS = np.linalg.norm(S[:, None, :] - S[None, :, :], axis=-1)
            dT = np.linalg.norm(T[:, None, :] - T[None, :, :], axis=-1)
            ok = np.allclose(dS, dT, atol=1e-6, equal_nan=True)
            if fi == 0 and ok and len(S):
                ok = np.allclose(S - S[0], T - T[0], atol=1e-9, equal_nan=True)
            if not ok:
                out.violations.append((f"{tag}:coords-differ", f"{rn}: the coordinate rows of fragment {fi + 1} are not those of the atoms they were copied from"))
    if need["scal"] and ro_res["scal"] != v.scal_v:
        out.violations.append((f"{tag}:scal-differ", f"{rn}: name/charge/mult differ from the first source's"))
    if need["attrib"] and (ro_res["attrib"] != [(leaf_key(k), vkey(x)) for k, x in v.attrib_d.items()]
                           or ro_res["stores"]["obj"] != dict_store(v.attrib_d)[0]):
        out.violations.append((f"{tag}:attrib-differ", f"{rn}: attrib differs from the first source's"))
    if route[0] == "concat":
        r = resu.read
        if type(r.charge) is not int or type(r.mult) is not int:
            out.violations.append((f"{tag}:charge-mult-not-int", f"{rn}: charge/mult of the result are {type(r.charge).__name__}/{type(r.mult).__name__}, not int"))
        srcs = [u.read for u in srcus]
        if r.charge != sum(s.charge for s in srcs) or r.mult != sum(s.mult - 1 for s in srcs) + 1:
            out.violations.append((f"{tag}:charge-mult-wrong", f"{rn}: charge/mult {r.charge}/{r.mult} of the result do not add up from the sources "
                                   f"{[(s.charge, s.mult) for s in srcs]}"))


# ------------------------------------------------------------------ the plan of cases
ALL_MUTS = ["atom_field", "atom_attrib", "attrib", "bond_field", "bond_attrib", "coord", "coords_assign", "charge",
            "weight", "scal", "del_atom", "add_h", "label_atoms"]
VAL_MUT_LIST = ["attrib_val", "atom_attrib_val", "bond_attrib_val"]


def plan(ctx):
    """Every (source class, route) x mutated side x mutation of the menu (a mutation that does not apply to the
    object is replaced by a random applicable one)."""
    reps = 1 if not ctx.thorough else 6
    quads = []
    combos = [(a, b) for a in DESIGNATORS for b in DESIGNATORS]
    vc = 0
    for kname, route in [(k, r) for k in SOURCES for r in single_routes(k)] + MULTI:
        c = 0
        for side in ("copy", "source"):
            # in-place edits of attribute VALUES (object / atom / bond level): all three on the routes whose contract is a
            # deep copy; on the one-level routes one level in turn (quick) or all three (thorough)
            if route[0] in DEEP_ROUTES or ctx.thorough:
                vmuts = list(VAL_MUT_LIST)
            else:
                vmuts = [VAL_MUT_LIST[vc % 3]]
                vc += 1
            for mut in ALL_MUTS + vmuts:
                for _ in range(reps):
                    # join: the attachment points are designated in every pair of AtomLike forms in turn
                    quads.append((kname, route, side, mut, combos[c % len(combos)] if route[0] == "join" else None))
                    c += 1
    # copy-constructor calls WITH keyword overrides: every (source class, destination class) x each applicable keyword
    # alone and all together (+ attrib=, + the list-of-conformers constructor: oracle only), either side mutated (quick: see
    # below; thorough: the whole menu)
    REL = {"name": "scal", "charge": "scal", "mult": "scal", "coords": "coord", "atomic_charges": "charge", "weights": "weight",
           "attrib": "attrib"}
    c = 0
    wroutes = [(k, r) for k in SOURCES for r in override_routes(k) + [("ctorw", d, ("attrib",)) for d in CTOR_DST]]
    wroutes += [(k, ("ensfromlistw", ov)) for k in ("Molecule", "Conformer")
                for ov in [("name", "coords", "atomic_charges", "weights"), ("name",), ("coords",), ("atomic_charges",), ("weights",)]]
    for kname, route in wroutes:
        ov = route_ov(route)
        for side in ("copy", "source"):
            if ctx.thorough:
                muts = list(ALL_MUTS) + VAL_MUT_LIST
            else:
                # one keyword: the edit that goes for the replaced field; all keywords: one of four array / scalar edits and
                # one more of the menu in turn
                muts = [REL[ov[0]]] if len(ov) == 1 else [["coords_assign", "scal", "charge", "weight"][c % 4], ALL_MUTS[c % len(ALL_MUTS)]]
                c += 1
            for mut in muts:
                quads.append((kname, route, side, mut, None))
    return quads


LOSSLESS = [("pickle",), ("deepcopy",)]


def plan_extra(ctx, tabulated):
    """Two more dimensions of the input space, as items (k0, prefix, route, side, mutation, designators, exotic, kinds, emit):
    * attribute values of TYPES beyond numbers / strings / arrays / lists / dicts (EXOTIC) on the object, an atom, a bond:
      every kind on every deep route of every class, random kinds on every other route;
    * CHAINS of copy routes: every (class, route 1, route 2) of the single routes (cross-class constructors applied to copies,
      copies of constructed objects, ...), class-preserving copies in front of the derived-molecule routes, and chains of three."""
    import random
    rng = random.Random(ctx.rng.randrange(1 << 30))
    items = []
    allm = ALL_MUTS + VAL_MUT_LIST
    c = 0
    reps = 1 if not ctx.thorough else 4
    for _ in range(reps):
        for kname in SOURCES:
            for route in single_routes(kname):
                if (kname, route) not in tabulated:
                    continue
                if route[0] in DEEP_ROUTES:
                    for kind in EXOTIC:
                        items.append((kname, (), route, ("copy", "source")[c % 2], allm[c % len(allm)], None, True, [kind], c % 3 == 0))
                        c += 1
                else:
                    for side in ("copy", "source"):
                        items.append((kname, (), route, side, allm[c % len(allm)], None, True, None, c % 3 == 0))
                        c += 1
        combos = [(a, b) for a in DESIGNATORS for b in DESIGNATORS]
        for kname, route in MULTI:
            for side in ("copy", "source"):
                items.append((kname, (), route, side, allm[c % len(allm)], combos[c % 25] if route[0] == "join" else None, True, None, c % 3 == 0))
                c += 1
            # class-preserving copies of the operands in front of concatenate / join / ensemble-from-list
            for pf in [(("pickle",),), (("deepcopy",),)] + ([(("ctor", kname),)] if kname != "Conformer" else []):
                items.append((kname, pf, route, ("copy", "source")[c % 2], allm[c % len(allm)], combos[c % 25] if route[0] == "join" else None,
                              c % 2 == 0, None, c % 3 == 0))
                c += 1
        # chains of two single routes
        for k0 in SOURCES:
            for r1 in single_routes(k0):
                if (k0, r1) not in tabulated:
                    continue
                k1 = dst_of(k0, r1)
                for r2 in single_routes(k1):
                    if (k1, r2) not in tabulated:
                        continue
                    items.append((k0, (r1,), r2, ("copy", "source")[c % 2], allm[c % len(allm)], None, c % 2 == 0, None, c % 3 == 0))
                    c += 1
    # chains of three (random; at least one class-preserving copy and one constructor among the first two)
    n3 = 160 if not ctx.thorough else 1200
    tries = 0
    while n3 and tries < 20000:
        tries += 1
        k0 = rng.choice(SOURCES)
        pf, k, ok = [], k0, True
        for _ in range(2):
            r = rng.choice(single_routes(k))
            ok = ok and (k, r) in tabulated
            pf.append(r)
            k = dst_of(k, r)
        r3 = rng.choice(single_routes(k))
        kinds = {r[0] for r in pf + [r3]}
        if not ok or (k, r3) not in tabulated or "ctor" not in kinds or not (kinds & set(DEEP_ROUTES)):
            continue
        items.append((k0, tuple(pf), r3, ("copy", "source")[c % 2], allm[c % len(allm)], None, c % 2 == 0, None, c % 4 == 0))
        c += 1
        n3 -= 1
    return items


def lone_oracle(ml, rng, rep):
    """Atom / Bond copied on their own (evolve, pickle, deepcopy): oracle only."""
    for kind in ("Atom", "Bond"):
        for rname, f in (("evolve", lambda x: x.evolve()), ("pickle", lambda x: pickle.loads(pickle.dumps(x))),
                         ("deepcopy", _copy.deepcopy)):
            for side in ("copy", "source"):
                m = make_source(ml, rng, "Molecule", n=3, rich=True, vals="rich")
                x = m.atoms[rng.randrange(3)] if kind == "Atom" else m.bonds[0]
                fields = ATOM_FIELDS if kind == "Atom" else BOND_FIELDS
                deep = rname in DEEP_ROUTES

                def snap(z, values=True):
                    # values=False: without the content of the mutable attribute values
                    vk = leaf_key if values else vkey
                    d = {"fields": [leaf_key(getattr(z, f)) for f in fields], "attrib": [(leaf_key(k), vk(v)) for k, v in z.attrib.items()]}
                    if kind == "Bond":
                        d["ends"] = [([leaf_key(getattr(e, f)) for f in ATOM_FIELDS], [(leaf_key(k), vk(v)) for k, v in e.attrib.items()])
                                     for e in (z.a1, z.a2)]
                    return d
                y = f(x)
                tag = f"C06:{kind}:{rname}"
                rep.case(key=(kind, rname, side))
                if snap(y) != snap(x):
                    rep.violate(tag + ":differs", f"{rname} of a lone {kind}: the copy differs from the source", {"lone": kind, "route": rname})
                if y.attrib is x.attrib:
                    rep.violate(tag + ":shares-attrib", f"{rname} of a lone {kind}: the copy shares the attrib dict", {"lone": kind, "route": rname})
                a, b = (y, x) if side == "copy" else (x, y)
                before = snap(b)
                a.attrib["zz"] = 1
                a.label = "changed"
                if kind == "Bond" and rname != "evolve":          # an evolved bond keeps the same end atoms by design
                    a.a1.label = "end-changed"
                    a.a2.attrib["ee"] = 2
                if snap(b) != before:
                    rep.violate(tag + f":leak:{side}", f"after {rname} of a lone {kind}, editing the {side} changed the other object",
                                {"lone": kind, "route": rname})
                # in-place edit of a mutable attribute value (of the end atoms of a pickled / deep-copied bond as well)
                rep.count("lone-value-edit:" + rname)
                if deep:
                    mine = list(dict_store(a.attrib)[1])
                    theirs = dict_store(b.attrib)[1]
                    if kind == "Bond":
                        mine += dict_store(a.a1.attrib)[1] + dict_store(a.a2.attrib)[1]
                        theirs = theirs + dict_store(b.a1.attrib)[1] + dict_store(b.a2.attrib)[1]
                    if any(same_obj(p, q) for p in mine for q in theirs):
                        rep.violate(tag + ":shares-attrib-value", f"{rname} of a lone {kind}: a mutable value stored in an attrib dictionary "
                                    "of the copy IS the source's object", {"lone": kind, "route": rname})
                before = snap(b, values=deep)
                edit_value_in_place(a.attrib, rng)
                if kind == "Bond" and deep:
                    edit_value_in_place(a.a1.attrib, rng)
                if snap(b, values=deep) != before:
                    rep.violate(tag + f":leak:attrib_val:{side}", f"after {rname} of a lone {kind}, an in-place edit of an attribute value of the "
                                f"{side} changed the other object", {"lone": kind, "route": rname})


def lone_exotic(ml, rng, rep):
    """A lone Atom / Bond that holds an attribute value of another type, copied on its own (evolve, pickle, deepcopy)."""
    for kind in ("Atom", "Bond"):
        for rname, f in (("evolve", lambda x: x.evolve()), ("pickle", lambda x: pickle.loads(pickle.dumps(x))), ("deepcopy", _copy.deepcopy)):
            for ek in EXOTIC:
                m = make_source(ml, rng, "Molecule", n=3, rich=True, vals="rich")
                x = m.atoms[rng.randrange(3)] if kind == "Atom" else m.bonds[0]
                if ek == "atoms-naming-each-other":
                    a, b = (x, next(y for y in m.atoms if y is not x)) if kind == "Atom" else (x.a1, x.a2)
                    a.attrib["mapped_to"], b.attrib["mapped_to"] = b, a
                else:
                    v = exotic_value(rng, ek, list(m.atoms), list(m.bonds))
                    if v is None and ek != "None":
                        continue
                    x.attrib["x_" + ek.replace("-", "_")] = v
                tag = f"C06:{kind}:{rname}"
                data = {"lone": kind, "route": rname, "exotic": ek}
                rep.case(key=(kind, rname, "exotic", ek))
                rep.count("lone-attribute-value-kind:" + ek)
                want = tkey(x.attrib)
                try:
                    y = f(x)
                except Exception as e:   # noqa
                    rep.violate(tag + f":raises:{type(e).__name__}:exotic-values", f"{rname} of a lone {kind} whose attrib holds a value of kind "
                                f"`{ek}` raised {type(e).__name__}: {str(e)[:160]}", data)
                    continue
                if tkey(x.attrib) != want:
                    rep.violate(tag + ":alters-source", f"{rname} of a lone {kind} changed the attribute values of the source (kind `{ek}`)", data)
                if tkey(y.attrib) != want:
                    rep.violate(tag + ":attrib-value-types-differ", f"{rname} of a lone {kind}: an attribute value of kind `{ek}` differs from the "
                                f"source's in type or content ({summ(tkey(y.attrib))} vs {summ(want)})", data)
                if rname in DEEP_ROUTES:
                    mine, theirs = [], []
                    deep_members(list(y.attrib.values()), mine, set())
                    deep_members(list(x.attrib.values()), theirs, set())
                    ids = {id(q) for q in theirs[1:]} | {id(q) for q in m.atoms} | {id(q) for q in m.bonds}
                    if any(id(q) in ids for q in mine[1:]):
                        rep.violate(tag + ":shares-attrib-value", f"{rname} of a lone {kind}: an object stored as an attribute value of the copy "
                                    f"(kind `{ek}`) IS the source's object", data)


def _quiet():
    import warnings
    import numpy as np
    warnings.filterwarnings("ignore")
    np.seterr(all="ignore")


def run(ctx, rep):
    import random
    import molli as ml
    _quiet()
    rep.rule = ("(source class, copy route incl. the set of keyword overrides, mutation, mutated side) over random sources built through the public API; "
                "a case is non-trivial when the route succeeds and the mutation applies; distinct by that quadruple "
                "plus the source's size, plus the chain of copy routes the source went through and the kinds of attribute values "
                "of other types it holds")
    rep.trusted += ["T-emitter harness/c06.py (is / numpy.shares_memory on every container of instrumented sources)",
                    "identity->location encoder and public-accessor observer of harness/c06.py",
                    "CPython 3.12, pickle / copy protocol, attrs.evolve, numpy array copying are executed, not modelled"]
    rep.assumptions += ["chains: up to two copy routes in front of the route under test (every pair of single routes, 160 random triples in the "
                        "quick tier); a class-preserving step is pickle, deepcopy or the constructor of the object's own class",
                        "attribute values of other types: compared by exact type and content (tkey); a stored Atom / Bond must be "
                        "re-pointed into the copy by pickle / deepcopy only; the model sees such values as content-free tokens",
                        "keyword overrides are generated truthy and different from the source's value (molli reads a falsy name / charge / "
                        "mult as `not given`; an array keyword for an ensemble built from an object without conformers has no row to fill)",
                        "mutable values stored INSIDE an attribute dictionary: routes whose contract is a deep copy (pickle, deepcopy) must "
                        "separate them at every depth; the one-level routes (copy constructors, evolve, concatenate, join, ensemble-from-list) "
                        "hand out the source's value objects in /repo (table: VShared) -- the property enumerates edits of atoms, bonds, "
                        "coordinates, charges and attribute DICTIONARIES, so an in-place edit of such a value is not held against them",
                        "one store per dictionary: an in-place value edit never adds / removes a mutable object, the attrib / atom_attrib "
                        "edits never rebind a key that holds one",
                        "the alias row of a route does not depend on the particular source (checked on every random case by tie H)",
                        "a Conformer pickled / deep-copied as a conformer is judged through its ensemble; a Conformer's coordinate "
                        "and charge rows are read as its own arrays (their aliasing with the ensemble is C14's subject)"]
    _t0 = __import__("time").time()
    rows, raising = gen_table(ctx)
    for k, r, x in rows:
        rep.count("route:" + r[0])
        levels = [v for v in [x["vals"], x["avals"]] + ([x["bonds"]["vals"]] if x["bonds"] else []) if v]
        # (only a one-level route may be partly shared; a deep route that is goes on being driven with mutable values)
        TRACK_VALS[(k, norm_route(r))] = "VPart" not in levels or r[0] in DEEP_ROUTES
        rep.count("attrib-values:" + ("deep:" if r[0] in DEEP_ROUTES else "one-level:") + "/".join(sorted(set(levels))))
    rep.extra["routes_tabulated"] = len(rows)
    rep.extra["routes_raising"] = [f"{k} {route_name(r)} {e}" for k, r, e in raising]
    ok, outp, where = vlib.build_props(ctx, rep, "C06")
    tabulated = {(k, r) for k, r, _ in rows}
    cases, meta, found = [], [], False
    known_hit = set()
    lone_oracle(ml, random.Random(ctx.rng.randrange(1 << 30)), rep)
    lone_exotic(ml, random.Random(ctx.rng.randrange(1 << 30)), rep)
    items = [(k, (), r, sd, m, dg, False, None, True) for k, r, sd, m, dg in plan(ctx)]
    items += plan_extra(ctx, {(k, norm_route(r)) for k, r in tabulated})
    for kname, prefix, route, side, mut, desig, exotic, kinds, emit in items:
        kcase = chain_classes(kname, prefix)[-1]
        if (kcase, route) not in tabulated and in_model(route):
            continue
        seed = ctx.rng.randrange(1 << 30)
        try:
            co = run_case(ml, random.Random(seed), kname, route, side, want_mut=mut, desig=desig, prefix=prefix, exotic=exotic, kinds=kinds,
                          emit=emit)
        except Exception as e:   # noqa
            rep.count("case-error:" + type(e).__name__)
            rep.extra.setdefault("case_errors", []).append(f"{chain_name(kname, prefix)} {route_name(route)} seed={seed}: {type(e).__name__}: {e}"[:300])
            continue
        rep.case(key=co.key + ((co.chain,) if co.chain else ()) + ((tuple(sorted(set(co.exotic))),) if co.exotic else ()),
                 sample={"class": kname, "route": route_name(route), "mutation": co.key[2], "side": side, "chain": co.chain,
                         "exotic": co.exotic} if (len(cases) % 97 == 0 or (prefix and len(cases) % 41 == 0)) else None)
        rep.count("mutation:" + co.key[2])
        if prefix:
            rep.count(f"chain:length={len(prefix) + 1}")
            rep.count("chain:" + ">".join(("same-class-" if st[0] == "ctor" and dst_of(k, st) == k else ("cross-class-" if st[0] == "ctor" else "")) + st[0]
                                          for k, st in zip(chain_classes(kname, prefix), list(prefix) + [route])))
        for kd in co.exotic:
            rep.count("attribute-value-kind:" + kd + (":deep-route" if route[0] in DEEP_ROUTES else ":one-level-route"))
        if exotic:
            rep.count("sources-with-attribute-values-of-other-types")
        if co.vkind:
            rep.count(f"value-edit:{co.vkind}:{'deep' if route[0] in DEEP_ROUTES else 'one-level'}-route")
        if not co.vals:
            rep.count("sources-without-mutable-values(route partly shares them)")
        for f in route_ov(route):
            rep.count("override:" + f)
        if route_ov(route):
            rep.count("override-route:" + route[0] + (":oracle-only" if not in_model(route) else ""))
        if co.term is not None:
            cases.append(co.term)
            meta.append((kname, route, side, seed, prefix, exotic, kinds))
        if desig:
            rep.count(f"join-designators:{desig[0]}/{desig[1]}")
        for sig, text in co.violations:
            found = True
            rep.violate(sig, text, {"kname": kname, "route": list(route), "side": side, "seed": seed, "mut": mut, "desig": desig,
                                    "vals": co.vals, "prefix": [list(x) for x in prefix], "exotic": exotic, "kinds": kinds})
    if rep.extra.get("case_errors") and len(rep.extra["case_errors"]) > len(cases) // 10 + 3:
        vlib.broken_obligation(rep, "C06_cases", "too many cases could not be driven: " + "; ".join(rep.extra["case_errors"][:3]), found)
    rep.extra["oracle_encoding_s"] = round(__import__("time").time() - _t0, 1)
    rep.extra["cases_to_coq"] = len(cases)
    bad = vlib.run_shards(ctx, rep, "c06", HEADER, "(check_case table)", cases, shard=60, case_type="case")
    if bad is None:
        vlib.broken_obligation(rep, "C06_correspondence", "a correspondence shard did not compile: "
                               + "\n".join(rep.extra.get("shard_errors", []))[-1500:], found)
    elif bad:
        rep.extra["mismatching_cases"] = [f"{chain_name(meta[i][0], meta[i][4])} {route_name(meta[i][1])} side={meta[i][2]} seed={meta[i][3]}"
                                          + (" exotic" if meta[i][5] else "") for i in bad[:20]]
        # search: widen the oracle around the mismatching (class, route) pairs
        for i in bad[:30]:
            kname, route, side, seed, prefix, exotic, kinds = meta[i]
            for s2 in range(40):
                for sd in ("copy", "source"):
                    try:
                        co = run_case(ml, random.Random(seed * 131 + s2), kname, route, sd, emit=False, prefix=prefix, exotic=exotic, kinds=kinds)
                    except Exception:   # noqa
                        continue
                    for sig, text in co.violations:
                        found = True
                        rep.violate(sig, text, {"kname": kname, "route": list(route), "side": sd, "seed": seed * 131 + s2, "emit": False,
                                                "vals": co.vals, "prefix": [list(x) for x in prefix], "exotic": exotic, "kinds": kinds})
        vlib.broken_obligation(rep, "C06_correspondence", f"{len(bad)} case(s) where the model and the implementation disagree: "
                               + "; ".join(rep.extra["mismatching_cases"][:5]), found)
    if not ok:
        vlib.broken_obligation(rep, "C06_table", f"{where}\n{outp[-1500:]}", found)
    known = {k.get("signature") for k in vlib.load_known() if k.get("property") == "C06" and k.get("status") == "known"}
    return tuple(sorted({v.sig for v in rep.violations if v.sig in known}))


def replay(ctx, data):
    import random
    import molli as ml
    _quiet()
    if "lone" in data:
        rep = vlib.Report(ctx)
        if "exotic" in data:
            lone_exotic(ml, random.Random(1), rep)
            return [v for v in rep.violations if all(v.replay.get(k) == data[k] for k in ("lone", "route", "exotic"))]
        lone_oracle(ml, random.Random(1), rep)
        return [v for v in rep.violations if v.replay.get("lone") == data["lone"] and v.replay.get("route") == data["route"]]
    co = run_case(ml, random.Random(data["seed"]), data["kname"], norm_route(data["route"]), data["side"], want_mut=data.get("mut"), emit=False,
                  desig=tuple(data["desig"]) if data.get("desig") else None, vals=data.get("vals", True),
                  prefix=tuple(norm_route(x) for x in data.get("prefix", [])), exotic=data.get("exotic", False), kinds=data.get("kinds"))
    return [vlib.Violation(s, t) for s, t in co.violations]
