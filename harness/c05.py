"""C05 -- atoms, bonds, coordinates and charges stay aligned under every edit history.

Tie H: edit histories (random, length <= 40, and bounded-exhaustive short ones over a 20-letter
alphabet) are driven through the REAL Molecule / Structure API starting from empty, mol2-/CDXML-loaded
and cloned molecules.  After EVERY step the public accessors (atoms, bonds, coords rows, atomic_charges,
get_atom_index, parent, idx) are read, keyed by object identity (id() -> dense names in creation
order), and written as Coq terms; `check_case` of Model/MolEdit.v replays the history in the model
inside Coq (vm_compute) and must reproduce every observation.  The theorems of Props/C05.v are about
those very definitions.

Shared Atom objects (second family): the same histories interleaved with (a) bond operations performed
through a Substructure view of the molecule (connect / append_bond(s) / extend_bonds / del_bond on
`mol.substructure(...)` or `mol.heavy`, designators resolved against the view) and (b) ADOPTIONS of some of the
molecule's Atom objects by another container that lists them without copying (Promolecule/Connectivity/
Structure/Molecule([atoms]), other.append_atom(a), other.add_atom(a, c)), which re-points their parent; the
container is kept alive or dropped (parent is a weak reference).  The model (xstep in Model/MolEdit.v)
says: neither changes the molecule, and every later operation decides membership from the atom list.
A third, oracle-only family drives the same bond operations through the Conformer views of a
ConformerEnsemble (atom and bond lists are shared with the ensemble).

Python oracle: judges the property itself on the implementation after every step (no model involved).
"""
import os, sys, json, math, itertools
import vlib
from vlib import cq_list, cq_bool

PROBE0 = 900000            # names of objects that never enter the molecule (foreign / discarded)
HEADER = ("From Coq Require Import List ZArith NArith PArith.\nImport ListNotations.\n"
          "From Molli Require Import Model.MolEdit Model.MolEditCall.\n"
          "Notation P x := (x%positive) (only parsing).\n")

KNOWN_FOREIGN = "C05:foreign-atom:append_bond:no-coordinate-row"
KNOWN_STRCOORD = "C05:coords:non-numeric:add_atom:numeric-strings-accepted"

# ---- how the arguments of a call are WRITTEN (Model/MolEditCall.v gives the spellings their meaning)
# the optional charge of Molecule.add_atom: absent / a number
Q_NONE_FORMS = {"omit": "QOmitted", "none": "(QNone false)", "kwnone": "(QNone true)"}
Q_NUM_FORMS = {"float": ("NFloat", False), "kw": ("NFloat", True), "int": ("NInt", False), "np64": ("NNp64", False),
               "np32": ("NNp32", True), "npint": ("NNpInt", False), "arr0": ("NArr0", False)}
# a coordinate
C_FORMS = {"list": "CList", "tuple": "CTuple", "arr64": "CArr64", "arr32": "CArr32", "ints": "CInts", "intarr": "CIntArr",
           "nplist": "CNpList", "view": "CView", "col": "CCol"}
C_FORMS_EXACT32 = ("arr32", "nplist")        # the values must be exact in single precision
C_FORMS_INT = ("ints", "intarr")             # the values must be integers
EL_FORMS = {"enum": "EEnum", "int": "EInt", "sym": "ESym"}
ISO_FORMS = {"omit": "IOmitted", "kwnone": "(INone true)", "posnone": "(INone false)"}
CONNECT_KW = (None, "label-none", "defaults")
BONDS_HOW = ("append", "extend", "extend-list", "extend-tuple", "extend-gen")

MOL2_STARTS = ["dmf_mol2", "benzene_mol2", "dummy_mol2", "fxyl_mol2", "hadd_test_mol2",
               "box_backbone_mol2", "isornitrate_mol2", "dendrobine_mol2"]
MOL2_WEIGHTS = [6, 4, 4, 3, 3, 2, 2, 1]
ELEMS = [1, 6, 7, 8, 17]


def P(n):
    return f"{n}%positive"


def Zt(z):
    return f"({z})%Z" if z < 0 else f"{z}%Z"


def Nt(n):
    return f"{n}%N"


def opt(x, f):
    return "None" if x is None else f"(Some {f(x)})"


# ------------------------------------------------------------------ driver around one real molecule
class Driver:
    """Holds one real Molecule/Structure, the identity -> name maps, and the token maps."""

    def __init__(self, mol, kind):
        import numpy as np
        self.np = np
        self.m = mol
        self.kind = kind                    # "mol" | "struct"
        self.an, self.bn = {}, {}           # id(obj) -> name
        self.ao, self.bo = {}, {}           # name -> obj  (strong references: id() is never reused)
        self.next_a, self.next_b, self.next_probe = 1, 1, PROBE0
        self.rows = {}                      # row key -> token
        self.labels = {}                    # label string -> token
        self.given = {}                     # id(atom) -> (row key, charge) it was given
        self.fresh = 0
        self.pending_given = None
        self.keep = []                      # views / adopting containers that are kept alive
        self.disowned = set()               # id(atom) of atoms that the HARNESS had adopted by another container
        self.view_obs = None                # what the last view showed before / after the operation on it
        self.pending_row = None             # row key of the coordinate object actually handed to new_atom
        self.aliased = []                   # arguments of the last call whose later mutation by the CALLER showed in the molecule
        self.np_mode = "idx"                # how a numpy-integer index is written in the model term (see execute)

    # -- naming
    def name_atom(self, a, probe=False):
        k = id(a)
        if k not in self.an:
            if probe:
                n = self.next_probe; self.next_probe += 1
            else:
                n = self.next_a; self.next_a += 1
            self.an[k] = n; self.ao[n] = a
        return self.an[k]

    def name_bond(self, b):
        k = id(b)
        if k not in self.bn:
            self.bn[k] = self.next_b; self.bo[self.next_b] = b; self.next_b += 1
        return self.bn[k]

    def atom(self, name):
        from molli.chem import Atom
        if name not in self.ao:            # a probe object that never belonged to the molecule
            a = Atom("He")
            self.an[id(a)] = name; self.ao[name] = a
            self.next_probe = max(self.next_probe, name + 1)
        return self.ao[name]

    def rowkey(self, r):
        return tuple("nan" if (isinstance(x, str) or x != x) else float(x) for x in r)

    def rowtok(self, r):
        k = self.rowkey(r)
        if k == (0.0, 0.0, 0.0):           # origin_row of Model/MolEditCall.v: the default coordinate of new_atom
            return 0
        if k not in self.rows:
            self.rows[k] = len(self.rows) + 1
        return self.rows[k]

    def labtok(self, s):
        if s not in self.labels:
            self.labels[s] = len(self.labels) + 1
        return self.labels[s]

    def owner(self, o):
        p = o.parent
        return "OThis" if p is self.m else ("ONone" if p is None else "OOther")

    # -- reading the public accessors
    def snapshot(self):
        """Everything the property talks about, as plain python data keyed by identity."""
        m, np = self.m, self.np
        atoms = list(m.atoms)
        for a in atoms:
            self.name_atom(a)
        bonds = list(m.bonds)
        for b in bonds:
            self.name_bond(b)
        snap = {"atoms": atoms, "bonds": bonds, "ends": [(b.a1, b.a2) for b in bonds]}
        snap["aown"] = [self.owner(a) for a in atoms]
        snap["bown"] = [self.owner(b) for b in bonds]
        idx, gai = [], []
        for a in atoms:
            try:
                if a.parent is not m:       # Atom.idx asks the PARENT: not this molecule's answer
                    idx.append(-2)
                else:
                    i = a.idx
                    idx.append(-1 if i is None else int(i))
            except Exception:
                idx.append(-1)
            try:
                gai.append(int(m.get_atom_index(a)))
            except Exception:
                gai.append(-1)
        snap["idx"], snap["gai"] = idx, gai
        c = np.asarray(m.coords)
        snap["coords_shape"] = tuple(c.shape)
        snap["c_dtype"] = str(c.dtype)
        snap["c_numeric"] = c.dtype.kind in "fiu"
        snap["rows"] = [self.rowkey(r) for r in c.reshape(len(c), -1).tolist()] if (c.ndim >= 1 and c.size) else []
        if self.kind == "mol":
            q = m.atomic_charges
            qa = np.asarray(q)
            snap["q_shape"] = tuple(qa.shape)
            snap["q_numeric"] = qa.dtype.kind in "fiu"
            snap["q_dtype"] = str(qa.dtype)
            vals = []
            for x in qa.reshape(-1).tolist():
                vals.append(float(x) if isinstance(x, (int, float)) and not isinstance(x, bool) else None)
            snap["q"] = vals
            # every ELEMENT as the accessor hands it out (not through tolist): a number, whatever the dtype claims
            snap["q_bad"] = [(i, repr(x)) for i, x in enumerate(qa.reshape(-1))
                             if isinstance(x, (bool, np.bool_)) or not isinstance(x, (int, float, np.integer, np.floating))][:3]
        else:
            snap["q"] = None
        return snap

    def obs_term(self, raised, snap):
        at = cq_list(f"({P(self.name_atom(a))}, {o})" for a, o in zip(snap["atoms"], snap["aown"]))
        idx = cq_list(Zt(i) for i in snap["idx"])
        gai = cq_list(Zt(i) for i in snap["gai"])
        rows = cq_list(Zt(self.rowtok(r)) for r in snap["rows"])
        if snap["q"] is None:
            q = "[]"
        else:
            q = cq_list(("CNone" if x is None else f"(CNum {Zt(self.qtok(x))})") for x in snap["q"])
        bd = cq_list(f"({P(self.name_bond(b))}, ({P(self.name_atom(e[0], probe=True))}, {P(self.name_atom(e[1], probe=True))}), {o})"
                     for b, e, o in zip(snap["bonds"], snap["ends"], snap["bown"]))
        return f"(mkObs {cq_bool(raised)} {at} {idx} {gai} {rows} {q} {bd})"

    def qtok(self, x):
        if x == x and abs(x) < 1e15 and float(int(x)) == x:
            return int(x)
        return -7777777          # a charge that is not one of the integer tokens handed in

    def state_term(self, snap):
        from molli.chem import Element
        ats = cq_list(f"(mkAtom {P(self.name_atom(a))} {Nt(int(a.element))} {opt(a.label, lambda s: Nt(self.labtok(s)))} {o})"
                      for a, o in zip(snap["atoms"], snap["aown"]))
        rows = cq_list(Zt(self.rowtok(r)) for r in snap["rows"])
        q = "[]" if snap["q"] is None else cq_list(("CNone" if x is None else f"(CNum {Zt(self.qtok(x))})") for x in snap["q"])
        bd = cq_list(f"(mkBond {P(self.name_bond(b))} {P(self.name_atom(e[0], probe=True))} {P(self.name_atom(e[1], probe=True))} {o})"
                     for b, e, o in zip(snap["bonds"], snap["ends"], snap["bown"]))
        return f"(mkSt {cq_bool(self.kind == 'mol')} {ats} {rows} {q} {bd} {P(self.next_a)} {P(self.next_b)})"

    # -- selectors
    def sel_py(self, s):
        from molli.chem import Element
        k, v = s
        if k == "obj":
            return self.atom(v)
        if k == "idx":
            return int(v)
        if k == "npidx":                   # an index as numpy hands it out (np.argmin, np.where, ...)
            return self.np.int64(v) if v % 2 == 0 else self.np.intp(v)
        if k == "label":
            return str(v)
        return Element(int(v))

    def sel_term(self, s):
        k, v = s
        if k == "obj":
            return f"(ByObj {P(v)})"
        if k == "idx":
            return f"(ByIdx {Zt(v)})"
        if k == "npidx":
            # a numpy integer is either taken for the int it equals or refused as a designator that does not resolve;
            # which of the two is read off the outcome (execute), the rest of the call is the model's business
            return f"(ByIdx {Zt(v)})" if self.np_mode == "idx" else f"(ByObj {P(PROBE0 - 4)})"
        if k == "label":
            return f"(ByLabel {Nt(self.labtok(v))})"
        return f"(ByElem {Nt(v)})"

    # -- argument objects in the form the op asks for
    def mk_coord(self, vals, form):
        """The coordinate `vals` (3 python floats) as the object handed to the library."""
        np = self.np
        if form == "list":
            return [float(v) for v in vals]
        if form == "tuple":
            return tuple(float(v) for v in vals)
        if form == "arr64":
            return np.array(vals, dtype=np.float64)
        if form == "arr32":
            return np.array(vals, dtype=np.float32)
        if form == "ints":
            return [int(v) for v in vals]
        if form == "intarr":
            return np.array([int(v) for v in vals], dtype=np.int64)
        if form == "nplist":
            return [np.float64(vals[0]), np.float32(vals[1]), np.float64(vals[2])]
        if form == "view":                 # a row of a buffer the caller owns (and goes on using)
            buf = np.array([[9.0e9] * 3, list(vals), [8.0e8] * 3], dtype=np.float64)
            return buf[1]
        if form == "col":                  # a strided column of one
            buf = np.array([[7.0e7, vals[0], 6.0e6], [7.0e7, vals[1], 6.0e6], [7.0e7, vals[2], 6.0e6]], dtype=np.float64)
            return buf[:, 1]
        raise RuntimeError("unknown op (coordinate form) " + str(form))

    def coord_given(self, cobj):
        """What the object says, exactly, in double precision."""
        return [float(x) for x in self.np.asarray(cobj, dtype=self.np.float64).reshape(-1).tolist()]

    def mk_charge(self, q, form):
        np = self.np
        if form in ("float", "kw"):
            return float(q)
        if form == "int":
            return int(q)
        if form == "np64":
            return np.float64(q)
        if form == "np32":
            return np.float32(q)
        if form == "npint":
            return np.int64(int(q))
        if form == "arr0":
            return np.array(float(q))
        raise RuntimeError("unknown op (charge form) " + str(form))

    def scribble(self, obj):
        """The caller goes on using (overwrites) an argument it passed.  Returns True when there was something to overwrite."""
        np = self.np
        if isinstance(obj, list) and obj:
            obj[0] = 12345.0
            obj[-1] = -12345.0
            return True
        if isinstance(obj, np.ndarray):
            obj[...] = 12345
            return True
        return False

    def last_row(self):
        """(last coordinate row, last charge) as plain data, None where unreadable."""
        try:
            c = self.np.asarray(self.m.coords)
            r = repr(c[-1].tolist()) if len(c) else None
        except Exception:
            r = None
        try:
            q = repr(self.np.asarray(self.m.atomic_charges)[-1].tolist()) if self.kind == "mol" and self.m.n_atoms else None
        except Exception:
            q = None
        return r, q

    def call_spelled(self, call, *mutable):
        """Runs the call, then lets the caller overwrite the mutable argument objects it passed: ("coord"|"charge", obj).
        An atom keeps the coordinate and the charge it was GIVEN, not a window onto the caller's buffer."""
        call()
        before = self.last_row()
        hit = [what for what, obj in mutable if self.scribble(obj)]
        if hit:
            after = self.last_row()
            if before[0] != after[0]:
                self.aliased.append("coord")
            if before[1] != after[1]:
                self.aliased.append("charge")

    # -- executing one operation (JSON form) on the real object; returns (coq op term, raised, exception name)
    def execute(self, op):
        from molli.chem import Atom, Bond, Element, BondType
        m = self.m
        k = op[0]
        raised, exn, term = False, None, None
        pre_atoms = {id(a) for a in m.atoms}
        pre_bonds = {id(b) for b in m.bonds}
        pre_alist, pre_blist = [id(a) for a in m.atoms], [id(b) for b in m.bonds]
        self.aliased, self.pending_row, self.np_mode = [], None, "idx"
        has_np = any(isinstance(x, list) and len(x) == 2 and x[0] == "npidx" for x in op[1:])
        labt = lambda s: Nt(self.labtok(s))
        rs_larg = "LOmitted"
        try:
            if k == "add_atom":
                _, e, lab, coord, q = op[:5]
                sp = op[5] if len(op) > 5 and op[5] else {}
                bad = isinstance(coord, str)
                cf = sp.get("c", "list")
                if bad:
                    cobj = {"bad2": [1.0, 2.0], "bad33": [[1.0, 2.0, 3.0]] * 3, "bad0": []}[coord]
                    if cf == "tuple":
                        cobj = tuple(tuple(x) if isinstance(x, list) else x for x in cobj)
                    elif cf in ("arr64", "arr32"):
                        cobj = self.np.array(cobj, dtype=self.np.float64 if cf == "arr64" else self.np.float32)
                    carg, given_row = "CBad", None
                else:
                    cobj = self.mk_coord(coord, cf)
                    cgv = self.coord_given(cobj)
                    carg, given_row = f"(CGiven {C_FORMS[cf]} {Zt(self.rowtok(cgv))})", self.rowkey(cgv)
                # the optional charge: Structure.add_atom has none
                qf = sp.get("q")
                if self.kind != "mol" or (q is None and qf not in Q_NONE_FORMS):
                    qf = "omit"
                elif q is not None and qf not in Q_NUM_FORMS:
                    qf = "float"
                if self.kind != "mol":
                    q = None
                qarg = Q_NONE_FORMS[qf] if q is None else f"(QNum {Q_NUM_FORMS[qf][0]} {cq_bool(Q_NUM_FORMS[qf][1])} {Zt(int(q))})"
                term = f"(elab (CallAddAtom {Nt(e)} {opt(lab, labt)} {carg} {qarg}))"
                a = Atom(Element(e), label=lab)
                self.pending_given = (a, given_row, 0.0 if q is None else float(q))
                mut = [("coord", cobj)]
                if qf == "omit":
                    call = lambda: m.add_atom(a, cobj)
                elif qf == "none":
                    call = lambda: m.add_atom(a, cobj, None)
                elif qf == "kwnone":
                    call = lambda: m.add_atom(a, cobj, charge=None)
                else:
                    qobj = self.mk_charge(q, qf)
                    mut.append(("charge", qobj))
                    call = (lambda: m.add_atom(a, cobj, charge=qobj)) if Q_NUM_FORMS[qf][1] else (lambda: m.add_atom(a, cobj, qobj))
                self.call_spelled(call, *mut)
            elif k == "new_atom":
                _, e, lab, coord = op[:4]
                sp = op[4] if len(op) > 4 and op[4] else {}
                ef, iso, cf = sp.get("e", "enum"), sp.get("iso", "omit"), sp.get("c", "list")
                ckw, lomit = sp.get("ckw", True), (sp.get("l") == "omit" and lab is None)
                args = [{"enum": Element(e), "int": int(e), "sym": Element(e).symbol}[ef]]
                kw, mut = {}, []
                if cf != "omit" and not ckw:
                    iso = "posnone"                  # a positional coordinate comes after a positional isotope
                if iso == "posnone":
                    args.append(None)
                elif iso == "kwnone":
                    kw["isotope"] = None
                if cf == "omit":
                    cgv, ncarg = [0.0, 0.0, 0.0], "NCOmitted"
                else:
                    cobj = self.mk_coord(coord, cf)
                    cgv = self.coord_given(cobj)
                    ncarg = f"(NCGiven {C_FORMS[cf]} {cq_bool(ckw)} {Zt(self.rowtok(cgv))})"
                    mut.append(("coord", cobj))
                    if ckw:
                        kw["coord"] = cobj
                    else:
                        args.append(cobj)
                if not lomit:
                    kw["label"] = lab
                self.pending_row = self.rowkey(cgv)
                larg = "LOmitted" if lomit else f"(LGiven {opt(lab, labt)})"
                term = f"(elab (CallNewAtom {EL_FORMS[ef]} {Nt(e)} {ISO_FORMS[iso]} {larg} {ncarg}))"
                self.call_spelled(lambda: m.new_atom(*args, **kw), *mut)
            elif k == "del_atom":
                term = f"(DelAtom {self.sel_term(op[1])})"
                m.del_atom(self.sel_py(op[1]))
            elif k == "connect":
                term = f"(Connect {self.sel_term(op[1])} {self.sel_term(op[2])})"
                kwf = op[3] if len(op) > 3 else None
                kw = {None: {}, "label-none": {"label": None},
                      "defaults": {"label": None, "btype": BondType.Single, "f_order": 1}}[kwf]
                m.connect(self.sel_py(op[1]), self.sel_py(op[2]), **kw)
            elif k == "append_bond":
                term = f"(AppendBond {P(op[1])} {P(op[2])})"
                m.append_bond(Bond(self.atom(op[1]), self.atom(op[2])))
            elif k == "append_bonds":
                term = "(AppendBonds " + cq_list(f"({P(x)}, {P(y)})" for x, y in op[1]) + ")"
                bs = [Bond(self.atom(x), self.atom(y)) for x, y in op[1]]
                if op[2] == "extend":
                    m.extend_bonds(iter(bs))
                elif op[2] == "extend-list":
                    m.extend_bonds(bs)
                elif op[2] == "extend-tuple":
                    m.extend_bonds(tuple(bs))
                elif op[2] == "extend-gen":
                    m.extend_bonds(b for b in bs)
                else:
                    m.append_bonds(*bs)
            elif k == "del_bond":
                d = op[1]
                if d[0] == "pos":
                    b = m.bonds[d[1]]
                else:
                    b = Bond(self.atom(d[1]), self.atom(d[2]))
                term = f"(DelBond {P(self.name_atom(b.a1, probe=True))} {P(self.name_atom(b.a2, probe=True))})"
                m.del_bond(b)
            elif k == "remove_substituent":
                apomit = len(op) > 4 and op[4] == "omit" and op[3] is None
                rs_larg = "LOmitted" if apomit else f"(LGiven {opt(op[3], labt)})"
                term = f"(elab (CallRemoveSubst {self.sel_term(op[1])} {self.sel_term(op[2])} {rs_larg}))"
                if apomit:
                    m.remove_substituent(self.sel_py(op[1]), self.sel_py(op[2]))
                else:
                    m.remove_substituent(self.sel_py(op[1]), self.sel_py(op[2]), ap_label=op[3])
            elif k == "sub":
                term, call = self.prepare_view(op)
                call()
            elif k == "adopt":
                _, names, route, keep = op
                term = f"(Adopt {cq_list(P(x) for x in names)} {'OOther' if keep else 'ONone'})"
                self.adopt(names, route, keep)
            elif k == "add_hs":
                targets = op[1]
                term = None            # built from what was added (see below)
                if targets is None:
                    m.add_implicit_hydrogens()
                else:
                    m.add_implicit_hydrogens(*[self.atom(t) for t in targets])
            else:
                raise RuntimeError("unknown op " + str(op))
        except Exception as e:           # StopIteration / AssertionError / IndexError / ValueError ... all count as "raised"
            if isinstance(e, RuntimeError) and "unknown op" in str(e):
                raise
            raised, exn = True, type(e).__name__
        if (has_np and raised and [id(a) for a in m.atoms] == pre_alist and [id(b) for b in m.bonds] == pre_blist):
            # raised and nothing changed: the numpy integer was (or may have been) refused -- in the model term it is a
            # designator that does not resolve.  (Raised half-way, e.g. remove_substituent(a, a) on a self-loop: the index
            # was taken for an int, and the model has to account for what was left behind.)
            self.np_mode = "rej"
            if k == "del_atom":
                term = f"(DelAtom {self.sel_term(op[1])})"
            elif k == "connect":
                term = f"(Connect {self.sel_term(op[1])} {self.sel_term(op[2])})"
            elif k == "remove_substituent":
                term = f"(elab (CallRemoveSubst {self.sel_term(op[1])} {self.sel_term(op[2])} {rs_larg}))"
            self.np_mode = "idx"
        if k == "add_hs":
            # name the new atoms/bonds in list order, group the new hydrogens by the atom they were bonded to
            new_atoms = [a for a in m.atoms if id(a) not in pre_atoms]
            new_bonds = [b for b in m.bonds if id(b) not in pre_bonds]
            crd = self.np.asarray(m.coords)
            pos = {id(a): i for i, a in enumerate(m.atoms)}
            groups = []          # [(target name, [row tokens])] in order of appearance
            ok = len(new_atoms) == len(new_bonds)
            for h, b in zip(new_atoms, new_bonds):
                tgt = b.a1 if b.a2 is h else (b.a2 if b.a1 is h else None)
                if tgt is None or id(tgt) not in self.an or pos[id(h)] >= len(crd):
                    ok = False
                    break
                tn = self.an[id(tgt)]
                tok = self.rowtok(crd[pos[id(h)]].tolist())
                if groups and groups[-1][0] == tn:
                    groups[-1][1].append(tok)
                else:
                    groups.append((tn, [tok]))
            if not ok:
                groups = [(PROBE0 - 1, [])]      # not expressible: the model will disagree and the oracle decides
            elif raised:
                groups.append((PROBE0 - 1, []))  # raised (possibly half-way): the model stops at a non-member target
            term = "(AddHs " + cq_list(f"({P(t)}, {cq_list(Zt(c) for c in cs)})" for t, cs in groups) + ")"
        if k not in ("sub", "adopt"):
            term = f"(Own {term})"
        return term, raised, exn

    # -- shared Atom objects
    def pos(self, a):
        for i, x in enumerate(self.m.atoms):
            if x is a:
                return i
        raise ValueError("not an atom of the molecule")

    def adopt(self, names, route, keep):
        """Another container lists the named Atom objects of the molecule without copying them."""
        import gc
        import molli as ml
        ats = [self.atom(x) for x in names]
        for a in ats:
            self.disowned.add(id(a))
        if route.startswith("ctor:"):
            o = getattr(ml, route[5:])(list(ats))
        elif route == "append_atom":
            o = ml.Promolecule()
            for a in ats:
                o.append_atom(a)
        else:                                # "add_atom"
            o = ml.Structure()
            for a in ats:
                o.add_atom(a, [0.0, 0.0, 0.0])
        if keep:
            self.keep.append(o)
        else:
            del o                            # reference counting frees it at once (no cycle: the back-references are weak);
            if ats and ats[0].parent is not None:
                gc.collect()                 # a full collection only if something still holds it (its cost grows with the heap)

    def prepare_view(self, op):
        """op = ["sub", how, pick, keep, vop]: a Substructure over the named atoms, then ONE bond operation on it.
        Returns (coq term, thunk).  The thunk raises whatever the implementation raises."""
        from molli.chem import Bond
        _, how, pick, keep, vop = op
        m = self.m
        vk = vop[0]
        self.view_obs = None
        if vk == "connect":
            vt = f"(VConnect {self.sel_term(vop[1])} {self.sel_term(vop[2])})"
        elif vk == "append_bond":
            vt = f"(VAppendBond {P(vop[1])} {P(vop[2])})"
        elif vk == "append_bonds":
            vt = "(VAppendBonds " + cq_list(f"({P(x)}, {P(y)})" for x, y in vop[1]) + ")"
        elif vk == "del_bond" and vop[1][0] == "fresh":
            vt = f"(VDelBond {P(vop[1][1])} {P(vop[1][2])})"
        elif vk == "del_bond":
            vt = None                        # needs the view
        else:
            raise RuntimeError("unknown op " + str(op))
        view, err = None, None
        try:
            ats = [self.atom(x) for x in pick]
            if how == "heavy":
                view = m.heavy
            elif how == "obj":
                view = m.substructure(ats)
            elif how == "gen":
                view = m.substructure(a for a in ats)
            else:
                view = m.substructure([self.pos(a) for a in ats])
        except Exception as e:
            err = e
        if vt is None:
            nb = len(view.bonds) if view is not None else 0
            if -nb <= vop[1][1] < nb:
                b = view.bonds[vop[1][1]]
                vt = f"(VDelBond {P(self.name_atom(b.a1, probe=True))} {P(self.name_atom(b.a2, probe=True))})"
            else:
                b = None
                vt = f"(VDelBond {P(PROBE0 - 2)} {P(PROBE0 - 3)})"
        term = f"(ViaSub {cq_list(P(x) for x in pick)} {vt})"

        def call():
            if err is not None:
                raise err
            if keep:
                self.keep.append(view)
            vo = {"cls": type(view).__name__, "op": vk, "before": [id(a) for a in view.atoms], "exc": None}
            self.view_obs = vo
            try:
                if vk == "connect":
                    view.connect(self.sel_py(vop[1]), self.sel_py(vop[2]))
                elif vk == "append_bond":
                    view.append_bond(Bond(self.atom(vop[1]), self.atom(vop[2])))
                elif vk == "append_bonds":
                    bs = [Bond(self.atom(x), self.atom(y)) for x, y in vop[1]]
                    if vop[2] == "extend":
                        view.extend_bonds(iter(bs))
                    else:
                        view.append_bonds(*bs)
                elif vop[1][0] == "fresh":
                    view.del_bond(Bond(self.atom(vop[1][1]), self.atom(vop[1][2])))
                else:
                    view.del_bond(b if b is not None else Bond(self.atom(PROBE0 - 2), self.atom(PROBE0 - 3)))
            except Exception as e:
                vo["exc"] = type(e).__name__
                raise
            finally:
                vo["after"] = [id(a) for a in view.atoms]
                inside = set(vo["after"])
                vo["dangling"] = sum(1 for x in view.bonds if id(x.a1) not in inside or id(x.a2) not in inside)
                try:
                    vo["rows"] = int(self.np.asarray(view.coords).shape[0])
                except Exception as e:
                    vo["rows"] = type(e).__name__
        return term, call


# ------------------------------------------------------------------ the oracle (property judged on the implementation)
def judge(drv, before, after, op, raised):
    """Returns a list of (signature, text).  `before`/`after` are snapshots; no model involved."""
    out = []
    k = op[0] if op else "init"
    n = len(after["atoms"])
    ids_after = [id(a) for a in after["atoms"]]
    if len(set(ids_after)) != n:
        out.append(("C05:atoms:duplicate-object", f"after {k}: the same Atom object occurs twice in atoms"))
    if after["coords_shape"][:1] != (n,) or len(after["rows"]) != n:
        out.append(("C05:rows:coords!=atoms", f"after {k}: {n} atoms but coords has shape {after['coords_shape']}"))
    if after["q"] is not None:
        if after["q_shape"] != (n,):
            out.append(("C05:rows:charges!=atoms", f"after {k}: {n} atoms but atomic_charges has shape {after['q_shape']}"))
        if not after["q_numeric"] or any(x is None for x in after["q"]) or after.get("q_bad"):
            out.append(("C05:charges:non-numeric", f"after {k}: atomic_charges is not a numeric array: dtype={after.get('q_dtype')}, "
                        f"last values {after['q'][-3:]}, elements that are not numbers (index, value): {after.get('q_bad')}"))
    if not after.get("c_numeric", True) and n:
        out.append(("C05:coords:non-numeric", f"after {k}: coords is not a numeric array: dtype={after.get('c_dtype')}"))
    for what in (drv.aliased if op else []):
        out.append((f"C05:arg-aliased:{k}:{what}", f"after {k}: the {what} of the new atom changed when the CALLER overwrote the object it "
                    f"had passed: the atom did not keep the {what} it was given, it shares the caller's buffer"))
    # every atom keeps what it was given
    for i, a in enumerate(after["atoms"]):
        g = drv.given.get(id(a))
        if g is None:
            continue
        if i < len(after["rows"]) and g[0] is not None and after["rows"][i] != g[0]:
            out.append(("C05:coord-moved", f"after {k}: atom #{drv.an[id(a)]} at position {i} has coordinate row {after['rows'][i]}, was given {g[0]}"))
        if after["q"] is not None and i < len(after["q"]) and g[1] is not None and after["q"][i] != g[1]:
            out.append(("C05:charge-moved", f"after {k}: atom #{drv.an[id(a)]} at position {i} has charge {after['q'][i]}, was given {g[1]}"))
    # bonds join atoms of this molecule; parents; indices
    aset = set(ids_after)
    for b, (a1, a2), o in zip(after["bonds"], after["ends"], after["bown"]):
        if id(a1) not in aset or id(a2) not in aset:
            out.append(("C05:bond:dangling-endpoint", f"after {k}: bond #{drv.bn[id(b)]} has an endpoint that is not an atom of the molecule"))
        if o != "OThis":
            out.append(("C05:parent:bond", f"after {k}: bond #{drv.bn[id(b)]} reports parent {o}"))
    if len({id(b) for b in after["bonds"]}) != len(after["bonds"]):
        out.append(("C05:bonds:duplicate-object", f"after {k}: the same Bond object occurs twice in bonds"))
    for i, (a, o) in enumerate(zip(after["atoms"], after["aown"])):
        if id(a) in drv.disowned:
            # the harness had this Atom object adopted by another container: what its parent pointer (and hence
            # Atom.idx) says is that container's business; the molecule's own lookup must still be right
            if after["gai"][i] != i:
                out.append(("C05:idx", f"after {k}: adopted atom at position {i} has get_atom_index={after['gai'][i]}"))
            continue
        if o != "OThis":
            out.append(("C05:parent:atom", f"after {k}: atom #{drv.an[id(a)]} reports parent {o}"))
        if after["idx"][i] != i or after["gai"][i] != i:
            out.append(("C05:idx", f"after {k}: atom at position {i} reports idx={after['idx'][i]}, get_atom_index={after['gai'][i]}"))
    if before is None:
        return out
    same = ([id(a) for a in before["atoms"]] == ids_after and before["rows"] == after["rows"]
            and before["q"] == after["q"] and [id(b) for b in before["bonds"]] == [id(b) for b in after["bonds"]])
    if raised and not same and k not in ("remove_substituent", "add_hs"):
        out.append((f"C05:failed-op-changed-state:{k}", f"{op} raised but the molecule was modified"))
    if k == "del_atom" and not raised:
        gone = [a for a in before["atoms"] if id(a) not in aset]
        if len(gone) != 1 or len(before["atoms"]) != n + 1:
            out.append(("C05:del_atom:not-exactly-one", f"{op}: {len(gone)} atoms disappeared"))
        else:
            g = gone[0]
            want = [id(b) for b, (a1, a2) in zip(before["bonds"], before["ends"]) if a1 is not g and a2 is not g]
            if want != [id(b) for b in after["bonds"]]:
                out.append(("C05:del_atom:bonds", f"{op}: the bonds removed are not exactly the bonds of the deleted atom"))
            if [id(a) for a in before["atoms"] if a is not g] != ids_after:
                out.append(("C05:del_atom:order", f"{op}: the surviving atoms changed order"))
    if k == "remove_substituent":
        def resolve(sel):
            kind, v = sel
            ats = before["atoms"]
            try:
                if kind == "obj":
                    a = drv.ao.get(v)
                    return a if any(a is x for x in ats) else None
                if kind in ("idx", "npidx"):
                    return ats[v]
                if kind == "label":
                    return next(a for a in ats if a.label == v)
                return next(a for a in ats if int(a.element) == v)
            except (IndexError, StopIteration):
                return None
        a1, a2 = resolve(op[1]), resolve(op[2])
        if raised:
            if not same and (a1 is None or a2 is None or a1 is not a2):
                out.append(("C05:failed-op-changed-state:remove_substituent", f"{op} raised but the molecule was modified"))
        elif a1 is None or a1 is not a2:       # remove_substituent(a, a) on a self-loop is not a meaningful call: not judged
            nbr = {}
            for x, y in before["ends"]:
                nbr.setdefault(id(x), []).append(y)
                nbr.setdefault(id(y), []).append(x)
            okk = a1 is not None and a2 is not None and any(y is a2 for y in nbr.get(id(a1), []))
            if okk:
                comp, todo = {id(a2)}, [a2]          # reference: everything reachable from a2 without passing through a1
                while todo:
                    x = todo.pop()
                    for y in nbr.get(id(x), []):
                        if y is not a1 and id(y) not in comp:
                            comp.add(id(y)); todo.append(y)
                want = [id(a) for a in before["atoms"] if id(a) not in comp]
                i2 = next(i for i, a in enumerate(before["atoms"]) if a is a2)
                ap = after["atoms"][-1] if after["atoms"] else None
                okk = (ids_after[:-1] == want and ap is not None and id(ap) not in {id(a) for a in before["atoms"]}
                       and i2 < len(before["rows"]) and after["rows"] and after["rows"][-1] == before["rows"][i2]
                       and after["ends"] and {id(after["ends"][-1][0]), id(after["ends"][-1][1])} == {id(a1), id(ap)}
                       and id(after["bonds"][-1]) not in {id(b) for b in before["bonds"]})
            if not okk:
                out.append(("C05:remove_substituent:effect", f"{op}: not (exactly the atoms behind a2 removed, one attachment point "
                            "with a2's coordinate row appended and bonded to a1)"))
    if k == "add_hs" and not raised:
        nb, na = len(before["bonds"]), len(before["atoms"])
        olda = {id(a) for a in before["atoms"]}
        okk = (ids_after[:na] == [id(a) for a in before["atoms"]] and [id(b) for b in after["bonds"][:nb]] == [id(b) for b in before["bonds"]]
               and len(after["atoms"]) - na == len(after["bonds"]) - nb
               and all(int(a.element) == 1 for a in after["atoms"][na:])
               and all((id(x) in olda) != (id(y) in olda) for x, y in after["ends"][nb:]))
        if not okk:
            out.append(("C05:add_hs:effect", f"{op}: something other than new hydrogens, each bonded to an existing atom, was changed"))
    if k == "add_hs" and raised and not same and op[1] is not None and len(op[1]) < 2:
        # single-target calls only: no arguments = every atom of the molecule = a multi-target call, where a later atom can fail
        # after earlier ones were completed; the molecule stays aligned, which is all the property asks (DESIGN C05 'Partial')
        out.append(("C05:failed-op-changed-state:add_hs", f"{op} raised but the molecule was modified"))
    if k in ("connect", "append_bond", "append_bonds", "del_bond") and ids_after != [id(a) for a in before["atoms"]]:
        out.append((f"C05:bond-op-changed-atoms:{k}", f"{op}: a bond operation changed the atom list"))
    if k in ("sub", "adopt") and (ids_after != [id(a) for a in before["atoms"]] or before["rows"] != after["rows"]
                                  or before["q"] != after["q"]):
        what = f"sub.{op[4][0]}" if k == "sub" else "adopt"
        out.append((f"C05:bond-op-changed-atoms:{what}", f"{op}: " + ("a bond operation through a Substructure view" if k == "sub"
                    else "listing atoms in another container") + " changed the atoms, rows or charges of the molecule"))
    if k == "sub" and drv.view_obs is not None and "after" in drv.view_obs:
        vo = drv.view_obs
        tag = f"{vo['cls']}.{vo['op']}"
        if vo["after"] != vo["before"]:
            out.append((f"C05:view:bond-op-changed-atoms:{tag}", f"{op}: the view listed {len(vo['before'])} atoms before and "
                        f"{len(vo['after'])} after a bond operation on it"))
        if len(set(vo["after"])) != len(vo["after"]) and len(set(vo["before"])) == len(vo["before"]):
            out.append((f"C05:view:duplicate-atom:{tag}", f"{op}: the view lists the same Atom object twice"))
        if vo["rows"] != len(vo["after"]):
            out.append((f"C05:view:rows!=atoms:{tag}", f"{op}: the view lists {len(vo['after'])} atoms and shows {vo['rows']} coordinate rows"))
        if vo["dangling"]:
            out.append((f"C05:view:bond:dangling-endpoint:{tag}", f"{op}: {vo['dangling']} bond(s) of the view have an end outside the view"))
    return out


def view_checks(drv, rng):
    """Read-only views: a Substructure over a random subset must show the parent's rows of exactly those atoms."""
    out = []
    m = drv.m
    n = m.n_atoms
    if n == 0:
        return out
    pick = sorted(rng.sample(range(n), min(n, rng.randint(1, 4))))
    try:
        sub = m.substructure(pick)
        rows = [drv.rowkey(r) for r in drv.np.asarray(sub.coords).tolist()]
        want = [drv.rowkey(r) for r in drv.np.asarray(m.coords)[pick].tolist()]
        if rows != want or list(sub.parent_atom_indices) != pick or [id(a) for a in sub.atoms] != [id(m.atoms[i]) for i in pick]:
            out.append(("C05:view:substructure-rows", f"substructure({pick}) does not show the parent's rows of those atoms"))
        inside = {id(m.atoms[i]) for i in pick}
        wantb = [id(b) for b in m.bonds if id(b.a1) in inside and id(b.a2) in inside]
        if [id(b) for b in sub.bonds] != wantb:
            out.append(("C05:view:substructure-bonds", f"substructure({pick}) does not hold exactly the bonds inside the subset"))
    except Exception as e:
        out.append(("C05:view:substructure-raises", f"substructure({pick}) raised {type(e).__name__}: {e}"))
    return out


def view_edit_checks():
    """Structure edits are not defined on the fixed-shape views (Conformer of an ensemble, Substructure):
    whatever they do, they must not leave the shared parent with atoms and coordinate rows out of step."""
    import numpy as np
    import molli as ml
    from molli.chem import Atom
    out, n = [], 0
    ens = ml.ConformerEnsemble.load_mol2(str(ml.files.pentane_confs_mol2))
    mol = ml.Molecule.load_mol2(str(ml.files.dmf_mol2))
    views = [("Conformer", ens[1], ens, lambda: (list(map(id, ens.atoms)), ens.coords.shape, ens.atomic_charges.shape)),
             ("Substructure", mol.substructure([0, 2, 4]), mol, lambda: (list(map(id, mol.atoms)), mol.coords.shape, mol.atomic_charges.shape))]
    for cname, view, parent, shape in views:
        for oname, call in (("add_atom", lambda v: v.add_atom(Atom("H"), [0.5, 0.25, 0.125])),
                            ("new_atom", lambda v: v.new_atom("H", coord=[0.5, 0.25, 0.125])),
                            ("del_atom", lambda v: v.del_atom(0)),
                            ("del_atom(obj)", lambda v: v.del_atom(v.atoms[1]))):
            before = shape()
            own_before = list(map(id, view.atoms))
            try:
                call(view)
                raised = False
            except Exception:
                raised = True
            n += 1
            after = shape()
            na, rows = len(after[0]), after[1][-2]
            if na != rows or (raised and (after != before or list(map(id, view.atoms)) != own_before)):
                out.append((f"C05:view:{cname}.{oname}", f"{cname}.{oname} " + ("raised and" if raised else "returned and")
                            + f" left the parent with {na} atoms, coords {after[1]}, charges {after[2]} (before: {len(before[0])}, {before[1]})",
                            {"kind": "view"}))
    return out, n


# ------------------------------------------------------------------ Conformer views of an ensemble (oracle only)
ENS_SRCS = ["pentane_confs_mol2", "dmf_mol2:3", "benzene_mol2:2", "dummy_mol2:4", "fxyl_mol2:2"]


def make_ens(src):
    import molli as ml
    if ":" in src:
        name, k = src.split(":")
        return ml.ConformerEnsemble(ml.Molecule.load_mol2(str(getattr(ml.files, name))), n_conformers=int(k))
    return ml.ConformerEnsemble.load_mol2(str(getattr(ml.files, src)))


def gen_ens_op(rng, n, nc, nb):
    def sel():
        r = rng.random()
        if r < 0.45:
            return ["obj", rng.randrange(n)]
        if r < 0.85:
            return ["idx", rng.randrange(n)]
        if r < 0.93:
            return ["idx", rng.randrange(n) - n]
        return rng.choice([["idx", n + 1], ["obj", -1]])       # out of range / an Atom that is not in the ensemble
    z = rng.random()
    if z < 0.40:
        vop = ["connect", sel(), sel()]
    elif z < 0.58:
        vop = ["append_bond", rng.randrange(n), rng.randrange(n)]
    elif z < 0.78:
        vop = ["append_bonds", [[rng.randrange(n), rng.randrange(n)] for _ in range(rng.randint(0, 3))], rng.choice(["append", "extend"])]
    elif nb and rng.random() < 0.8:
        vop = ["del_bond", ["pos", rng.randrange(nb)]]
    else:
        vop = ["del_bond", ["fresh", rng.randrange(n), rng.randrange(n)]]
    if rng.random() < 0.75:
        return ["conf", rng.randrange(nc), rng.choice(["item", "item", "iter", "slice"]), rng.random() < 0.5, vop]
    return ["ens", vop]


def run_ens_history(src, ops):
    """Bond operations through Conformer views (and on the ensemble itself).  A bond operation never changes the
    atoms: after every step the ensemble has one entry per atom, one coordinate row and one charge per atom in
    every conformer, every atom reports the ensemble and its index, every bond joins two of its atoms.
    Returns (findings [(sig, text, step)], stats [(key, exception name)])."""
    import numpy as np
    from molli.chem import Atom, Bond
    ens = make_ens(src)
    atoms0 = list(ens.atoms)
    stray = Atom("He")
    nc = ens.n_conformers
    keepers, findings, stats = [], [], []

    def at(i):
        return stray if i < 0 else atoms0[i]

    def py(sel):
        return at(sel[1]) if sel[0] == "obj" else int(sel[1])

    def judge_ens(step, via, vk, raised, before):
        out = []
        atoms = list(ens.atoms)
        n = len(atoms)
        if before is not None and [id(a) for a in atoms] != before[0]:
            out.append((f"C05:ens:bond-op-changed-atoms:{via}.{vk}", f"the ensemble listed {len(before[0])} atoms before and {n} after"))
        if len({id(a) for a in atoms}) != n:
            out.append(("C05:ens:atoms:duplicate-object", "the same Atom object occurs twice in the atoms of the ensemble"))
        cs, qs = np.asarray(ens.coords).shape, np.asarray(ens.atomic_charges).shape
        if cs != (nc, n, 3):
            out.append(("C05:ens:rows:coords!=atoms", f"{n} atoms but coords has shape {cs}"))
        if qs != (nc, n):
            out.append(("C05:ens:rows:charges!=atoms", f"{n} atoms but atomic_charges has shape {qs}"))
        for i, a in enumerate(atoms):
            if a.parent is not ens:
                out.append(("C05:ens:parent:atom", f"atom at position {i} reports parent {a.parent!r}"))
                break
            if a.idx != i:
                out.append(("C05:ens:idx", f"atom at position {i} reports idx={a.idx}"))
                break
        inside = {id(a) for a in atoms}
        bonds = list(ens.bonds)
        if any(id(b.a1) not in inside or id(b.a2) not in inside for b in bonds):
            out.append(("C05:ens:bond:dangling-endpoint", "a bond of the ensemble has an end that is not one of its atoms"))
        if len({id(b) for b in bonds}) != len(bonds):
            out.append(("C05:ens:bonds:duplicate-object", "the same Bond object occurs twice in the bonds of the ensemble"))
        for k in range(nc):
            c = ens[k]
            shp = (c.n_atoms, np.asarray(c.coords).shape, np.asarray(c.atomic_charges).shape)
            if shp != (n, (n, 3), (n,)):
                out.append(("C05:ens:conformer-shape", f"conformer {k}: n_atoms, coords, charges = {shp} for {n} atoms"))
                break
        if raised and before != ([id(a) for a in atoms], [id(b) for b in bonds]):
            out.append((f"C05:ens:failed-op-changed-state:{via}.{vk}", "the operation raised but the ensemble was modified"))
        return [(sg, f"[{src}] step {step} {via}.{vk}: {tx}", step) for sg, tx in out]

    findings += judge_ens(-1, "start", "none", False, None)
    for step, op in enumerate(ops):
        if op[0] == "conf":
            _, k, getter, keep, vop = op
            tgt = ens[k] if getter == "item" else (list(ens)[k] if getter == "iter" else ens[k:k + 1][0])
            if keep:
                keepers.append(tgt)
            via = "Conformer"
        else:
            vop, tgt, via = op[1], ens, "ConformerEnsemble"
        vk = vop[0]
        before = ([id(a) for a in ens.atoms], [id(b) for b in ens.bonds])
        exn = None
        try:
            if vk == "connect":
                tgt.connect(py(vop[1]), py(vop[2]))
            elif vk == "append_bond":
                tgt.append_bond(Bond(at(vop[1]), at(vop[2])))
            elif vk == "append_bonds":
                bs = [Bond(at(x), at(y)) for x, y in vop[1]]
                if vop[2] == "extend":
                    tgt.extend_bonds(iter(bs))
                else:
                    tgt.append_bonds(*bs)
            elif vop[1][0] == "pos":
                tgt.del_bond(tgt.bonds[vop[1][1]])
            else:
                tgt.del_bond(Bond(at(vop[1][1]), at(vop[1][2])))
        except Exception as e:
            exn = type(e).__name__
        tgt = None
        stats.append((f"{via}.{vk}", exn))
        findings += judge_ens(step, via, vk, exn is not None, before)
    return findings, stats


def ensemble_family(ctx, rep):
    rng = ctx.rng
    found = False
    for _ in range(2500 if ctx.thorough else 120):
        src = rng.choice(ENS_SRCS)
        ens = make_ens(src)
        n, nc, nb = ens.n_atoms, ens.n_conformers, ens.n_bonds
        ops = []
        for _ in range(rng.randint(2, 10)):
            ops.append(gen_ens_op(rng, n, nc, nb))      # nb: positions valid at the start (later ones may raise IndexError)
        findings, stats = run_ens_history(src, ops)
        rep.case(key=json.dumps(["ens", src, ops], sort_keys=True) if any(e is None for _, e in stats) else None)
        rep.count("family:ensemble-views")
        rep.count("ens:start:" + src)
        for k, e in stats:
            rep.count(f"ens:op:{k}:" + ("ok" if e is None else e))
        seen = set()
        for sig, text, step in findings:
            if sig in seen:
                continue
            seen.add(sig)
            found = True
            rep.violate(sig, text, {"kind": "ens", "src": src, "ops": ops[:step + 1]})
    return found


# ------------------------------------------------------------------ start states
def make_start(spec):
    """spec = {"src": "empty"|"<x>_mol2"|"cdxml:<key>", "kind": "mol"|"struct", "clone": bool, "pre": [ops]}"""
    import numpy as np
    import molli as ml
    src, kind = spec["src"], spec["kind"]
    cls = ml.Molecule if kind == "mol" else ml.Structure
    if src == "empty":
        m = cls()
    elif src.startswith("cdxml:"):
        m = ml.CDXMLFile(ml.files.parser_demo_cdxml)[src[6:]]
        if kind == "struct":
            m = ml.Structure(m)
    else:
        m = cls.load_mol2(str(getattr(ml.files, src)))
    def qvals(base, how):
        v = np.arange(base, base + m.n_atoms, dtype=float)
        return {"arr": lambda: v, "list": lambda: v.tolist(), "tuple": lambda: tuple(v.tolist()),
                "intarr": lambda: v.astype(np.int64), "intlist": lambda: [int(x) for x in v],
                "f32": lambda: v.astype(np.float32)}[how]()
    if kind == "mol":
        m.atomic_charges = qvals(1001, spec.get("qset", "arr"))
    if spec.get("pre"):
        d0 = Driver(m, kind)
        d0.snapshot()
        for op in spec["pre"]:
            d0.execute(op)
    if spec.get("clone"):
        cl = spec.get("cl", "plain")
        if cl == "defaults":             # every optional argument of the constructor written out with its default
            kw = {"n_atoms": 0, "name": None, "charge": None, "mult": None, "coords": None}
            if kind == "mol":
                kw["atomic_charges"] = ...
            m = cls(m, **kw)
        elif cl == "qctor" and kind == "mol":     # the charges handed to the constructor
            m = cls(m, atomic_charges=qvals(5001, spec.get("qset", "arr")))
        else:
            m = cls(m)
        if kind == "mol" and not (cl == "qctor"):
            m.atomic_charges = qvals(5001, spec.get("qset", "arr"))
    return m


# ------------------------------------------------------------------ generators
def fresh_coord(drv, rng):
    while True:
        c = [round(rng.uniform(-6, 6), 3), round(rng.uniform(-6, 6), 3), round(rng.uniform(-6, 6), 3)]
        if drv.rowkey(c) not in drv.rows:
            return c


def fresh_coord_for(drv, rng, form):
    """A fresh coordinate whose values the form can carry exactly (integers / single precision)."""
    if form in C_FORMS_INT:
        while True:
            c = [float(rng.randint(-60, 60)), float(rng.randint(-60, 60)), float(rng.randint(-60, 60))]
            if drv.rowkey(c) not in drv.rows and c != [0.0, 0.0, 0.0]:
                return c
    if form in C_FORMS_EXACT32:
        while True:
            c = [rng.randint(-768, 768) / 128.0, rng.randint(-768, 768) / 128.0, rng.randint(-768, 768) / 128.0]
            if drv.rowkey(c) not in drv.rows and c != [0.0, 0.0, 0.0]:
                return c
    return fresh_coord(drv, rng)


def pick_cform(rng, p_plain=0.45):
    return "list" if rng.random() < p_plain else rng.choice(list(C_FORMS))


def pick_sel(drv, rng, valid=0.85, allow_idx=True):
    s = _pick_sel(drv, rng, valid, allow_idx)
    if s[0] == "idx" and rng.random() < 0.12:
        return ["npidx", s[1]]            # the same index as numpy hands it out
    return s


def _pick_sel(drv, rng, valid=0.85, allow_idx=True):
    m = drv.m
    n = m.n_atoms
    r = rng.random()
    if n == 0 or r > valid:      # something that cannot be resolved
        z = rng.random()
        if z < 0.3:
            dead = [k for k, a in drv.ao.items() if k < PROBE0 and all(a is not x for x in m.atoms)]
            return ["obj", rng.choice(dead)] if dead else ["obj", drv.next_probe + 1]
        if z < 0.5:
            return ["obj", drv.next_probe + 1]
        if z < 0.7 and allow_idx:
            return ["idx", rng.choice([n, n + 3, -n - 1, -n - 5])]
        if z < 0.85:
            return ["label", "no-such-label"]
        return ["elem", 79]
    a = rng.choice(m.atoms)
    z = rng.random()
    if z < 0.45 or (not allow_idx and z < 0.72):
        return ["obj", drv.an[id(a)]]
    if z < 0.65:
        return ["idx", m.atoms.index(a)]
    if z < 0.72:
        return ["idx", m.atoms.index(a) - n]           # negative index (wraps in get_atom, rejected by get_atom_index)
    if z < 0.86 and a.label is not None:
        return ["label", a.label]
    return ["elem", int(a.element)]


def gen_op(drv, rng):
    m = drv.m
    n, nb = m.n_atoms, m.n_bonds
    kinds = ["add_atom"] * 5 + ["new_atom"] * 3 + ["del_atom"] * 6 + ["connect"] * 4 + ["append_bond"] * 3 + \
            ["append_bonds"] * 2 + ["del_bond"] * 3 + ["remove_substituent"] * 2 + ["add_hs"] * 1
    k = rng.choice(kinds)
    names = [drv.an[id(a)] for a in m.atoms]
    if k == "add_atom":
        lab = rng.choice([None, None, "X%d" % rng.randint(0, 3)] + [a.label for a in m.atoms[:3] if a.label])
        cf = pick_cform(rng)
        if rng.random() < 0.12:
            coord, cf = rng.choice(["bad2", "bad33", "bad0"]), rng.choice(["list", "list", "tuple", "arr64", "arr32"])
        else:
            coord = fresh_coord_for(drv, rng, cf)
        drv.fresh += 1
        q = float(2000 + drv.fresh) if (drv.kind == "mol" and rng.random() < 0.65) else None
        # every legal way of (not) saying the optional charge: left out, an explicit None (the documented "optional"
        # value, e.g. forwarded from table.get(label)), a float, by keyword, an int, a numpy scalar, a 0-d array
        if drv.kind != "mol":
            qf = "omit"
        elif q is None:
            qf = rng.choice(["omit", "none", "kwnone"])
        else:
            qf = "float" if rng.random() < 0.4 else rng.choice(list(Q_NUM_FORMS))
        return ["add_atom", rng.choice(ELEMS), lab, coord, q, {"q": qf, "c": cf}]
    if k == "new_atom":
        lab = rng.choice([None, "N%d" % rng.randint(0, 2)])
        sp = {"e": rng.choice(["enum", "enum", "int", "sym"]), "iso": rng.choice(["omit", "omit", "kwnone", "posnone"]),
              "c": "omit" if rng.random() < 0.2 else pick_cform(rng), "ckw": rng.random() < 0.7,
              "l": "omit" if (lab is None and rng.random() < 0.5) else "kw"}
        coord = [0.0, 0.0, 0.0] if sp["c"] == "omit" else fresh_coord_for(drv, rng, sp["c"])
        return ["new_atom", rng.choice(ELEMS), lab, coord, sp]
    if k == "del_atom":
        return ["del_atom", pick_sel(drv, rng)]
    if k == "connect":
        return ["connect", pick_sel(drv, rng, 0.93), pick_sel(drv, rng, 0.93), rng.choice(CONNECT_KW + (None, None))]
    if k == "append_bond":
        if n == 0:
            return ["del_atom", pick_sel(drv, rng)]
        return ["append_bond", rng.choice(names), rng.choice(names)]
    if k == "append_bonds":
        if n == 0:
            return ["append_bonds", [], rng.choice(BONDS_HOW)]
        return ["append_bonds", [[rng.choice(names), rng.choice(names)] for _ in range(rng.randint(0, 3))],
                rng.choice(BONDS_HOW)]
    if k == "del_bond":
        z = rng.random()
        if nb and z < 0.75:
            return ["del_bond", ["pos", rng.randrange(nb)]]
        if nb and z < 0.88:
            b = rng.choice(m.bonds)        # an equal (same endpoints) but different Bond object
            e = [drv.an[id(b.a1)], drv.an[id(b.a2)]]
            rng.shuffle(e)
            return ["del_bond", ["fresh", e[0], e[1]]]
        if n:
            return ["del_bond", ["fresh", rng.choice(names), rng.choice(names)]]
        return ["del_bond", ["fresh", drv.next_probe + 1, drv.next_probe + 2]]
    if k == "remove_substituent":
        if nb and rng.random() < 0.85:
            b = rng.choice(m.bonds)
            a1, a2 = (b.a1, b.a2) if rng.random() < 0.5 else (b.a2, b.a1)
            z = rng.random()
            if z < 0.55:
                s1 = ["obj", drv.an[id(a1)]]
            elif z < 0.75:
                s1 = ["idx", m.atoms.index(a1)]        # positions shift during the deletions: a1 must be resolved first
            elif z < 0.87 and a1.label is not None and next(m.yield_atoms_by_label(a1.label)) is a1:
                s1 = ["label", a1.label]
            elif next(m.yield_atoms_by_element(a1.element)) is a1:
                s1 = ["elem", int(a1.element)]
            else:
                s1 = ["idx", m.atoms.index(a1) - n]
            z = rng.random()
            s2 = ["obj", drv.an[id(a2)]] if z < 0.6 else ["idx", m.atoms.index(a2)]
            ap = rng.choice([None, "AP1"])
            return ["remove_substituent", s1, s2, ap, "omit" if (ap is None and rng.random() < 0.5) else "kw"]
        return ["remove_substituent", pick_sel(drv, rng), pick_sel(drv, rng), None, rng.choice(["omit", "kw"])]
    if k == "add_hs":
        if n == 0 or rng.random() < 0.2:
            return ["add_hs", None]
        heavy = [drv.an[id(a)] for a in m.atoms if int(a.element) in (6, 7, 8)]
        pool = heavy if (heavy and rng.random() < 0.85) else names      # H / Cl targets raise KeyError (no valence entry)
        return ["add_hs", [rng.choice(pool) for _ in range(rng.randint(1, 2))]]
    raise AssertionError(k)


# ---- shared Atom objects: bond operations through a Substructure view, adoption by another container
ADOPT_ROUTES = ["ctor:Promolecule", "ctor:Connectivity", "ctor:Structure", "ctor:Molecule", "append_atom", "add_atom"]


def gen_view_sel(drv, rng, pick):
    """A designator as the VIEW resolves it (mostly valid)."""
    m = drv.m
    names = [drv.an[id(a)] for a in m.atoms]
    r = rng.random()
    if r < 0.80 and pick:
        z = rng.random()
        i = rng.randrange(len(pick))
        if z < 0.5:
            return ["obj", pick[i]]
        if z < 0.8:
            return ["idx", i]
        if z < 0.9:
            return ["idx", i - len(pick)]
        a = drv.ao[pick[i]]
        return ["label", a.label] if a.label is not None else ["elem", int(a.element)]
    z = rng.random()
    outside = [x for x in names if x not in pick]
    if z < 0.45 and outside:
        return ["obj", rng.choice(outside)]          # an atom of the molecule that the view does not list: ValueError
    if z < 0.75:
        return ["idx", rng.choice([len(pick), len(pick) + 2, -len(pick) - 1])]
    if z < 0.9:
        return ["obj", drv.next_probe + 1]
    return ["label", "no-such-label"]


def gen_view_op(drv, rng):
    m = drv.m
    names = [drv.an[id(a)] for a in m.atoms]
    how = rng.choice(["idx", "idx", "obj", "gen", "heavy"])
    pick = None
    if how == "heavy":
        pick = [drv.an[id(a)] for a in m.atoms if int(a.element) != 1]
        if not pick:
            how = "idx"
    if how != "heavy":
        pick = rng.sample(names, min(len(names), rng.randint(1, 6)))
        if drv.disowned and rng.random() < 0.5:      # prefer views that list an adopted atom
            dis = [x for x in names if id(drv.ao[x]) in drv.disowned]
            if dis and not any(x in pick for x in dis):
                pick[rng.randrange(len(pick))] = rng.choice(dis)
    keep = rng.random() < 0.5
    z = rng.random()
    if z < 0.40:
        vop = ["connect", gen_view_sel(drv, rng, pick), gen_view_sel(drv, rng, pick)]
    elif z < 0.58:
        vop = ["append_bond", rng.choice(pick), rng.choice(pick)]
    elif z < 0.78:
        vop = ["append_bonds", [[rng.choice(pick), rng.choice(pick)] for _ in range(rng.randint(0, 3))],
               rng.choice(["append", "extend"])]
    else:
        inside = set(pick)
        vb = [b for b in m.bonds if drv.an.get(id(b.a1)) in inside and drv.an.get(id(b.a2)) in inside]
        r = rng.random()
        if vb and r < 0.5:
            vop = ["del_bond", ["pos", rng.randrange(len(vb))]]
        elif vb and r < 0.8:
            b = rng.choice(vb)
            e = [drv.an[id(b.a1)], drv.an[id(b.a2)]]
            rng.shuffle(e)
            vop = ["del_bond", ["fresh", e[0], e[1]]]
        else:
            vop = ["del_bond", ["fresh", rng.choice(pick), rng.choice(names)]]
    return ["sub", how, pick, keep, vop]


def gen_adopt(drv, rng):
    m = drv.m
    names = [drv.an[id(a)] for a in m.atoms]
    some = rng.sample(names, min(len(names), rng.randint(1, 3)))
    return ["adopt", some, rng.choice(ADOPT_ROUTES), rng.random() < 0.5]


def gen_touch(drv, rng):
    """An ordinary edit of the molecule that involves an atom which reports another parent."""
    m = drv.m
    n = m.n_atoms
    names = [drv.an[id(a)] for a in m.atoms]
    dis = [x for x in names if id(drv.ao[x]) in drv.disowned]
    if not dis:
        return gen_op(drv, rng)
    x, y = rng.choice(dis), rng.choice(names)
    if rng.random() < 0.5:
        x, y = y, x
    z = rng.random()
    if z < 0.30:
        def form(v):
            return ["obj", v] if rng.random() < 0.6 else ["idx", drv.pos(drv.ao[v]) - (n if rng.random() < 0.3 else 0)]
        return ["connect", form(x), form(y)]
    if z < 0.50:
        return ["append_bond", x, y]
    if z < 0.72:
        return ["append_bonds", [[x, y]] + [[rng.choice(names), rng.choice(names)] for _ in range(rng.randint(0, 2))],
                rng.choice(["append", "extend"])]
    if z < 0.82:
        return ["del_atom", rng.choice([["obj", x], ["idx", drv.pos(drv.ao[x])]])]
    if z < 0.92:
        return ["add_hs", [x]]
    nb = [b for b in m.bonds if drv.an[id(b.a1)] in (x, y) or drv.an[id(b.a2)] in (x, y)]
    if nb:
        b = rng.choice(nb)
        return ["remove_substituent", ["obj", drv.an[id(b.a1)]], ["obj", drv.an[id(b.a2)]], None]
    return ["connect", ["obj", x], ["obj", y]]


def gen_op_shared(drv, rng):
    n = drv.m.n_atoms
    z = rng.random()
    if n >= 1 and z < 0.22:
        return gen_view_op(drv, rng)
    if n >= 1 and z < 0.34:
        return gen_adopt(drv, rng)
    if n >= 1 and z < 0.52 and drv.disowned:
        return gen_touch(drv, rng)
    return gen_op(drv, rng)


def _named(op):
    """Atom names an ordinary op mentions by object."""
    out = []
    def walk(x):
        if isinstance(x, list):
            if len(x) == 2 and x[0] == "obj":
                out.append(x[1])
            else:
                for y in x:
                    walk(y)
    walk(op[1:])
    if op[0] in ("append_bond",):
        out += [op[1], op[2]]
    if op[0] == "append_bonds":
        out += [v for pr in op[1] for v in pr]
    if op[0] == "add_hs" and op[1]:
        out += list(op[1])
    return out


def op_key(op):
    if op[0] == "sub":
        return "sub." + op[4][0]
    if op[0] == "adopt":
        return "adopt." + op[2] + (":kept" if op[3] else ":dropped")
    return op[0]


# the 21-letter alphabet of the bounded-exhaustive enumeration; letters are resolved against the current state
ALPHABET = ["add_q", "add_noq", "add_none", "add_bad", "new", "del_idx0", "del_objlast", "del_neg1", "del_label0", "del_elemlast",
            "conn_idx", "conn_obj", "app_bond", "app_bonds", "delb_first", "delb_eq_last", "rs_obj", "rs_rev", "add_h0",
            "sub_conn", "adopt_last"]


def resolve_letter(drv, rng, L):
    m = drv.m
    n, nb = m.n_atoms, m.n_bonds
    first = drv.an[id(m.atoms[0])] if n else drv.next_probe + 1
    last = drv.an[id(m.atoms[-1])] if n else drv.next_probe + 2
    if L == "add_q":
        drv.fresh += 1
        return ["add_atom", 6, "X0", fresh_coord(drv, rng), float(2000 + drv.fresh) if drv.kind == "mol" else None]
    if L == "add_noq":
        return ["add_atom", 8, None, fresh_coord(drv, rng), None]
    if L == "add_none":         # the optional charge as an EXPLICIT None, the coordinate as a tuple
        return ["add_atom", 7, None, fresh_coord(drv, rng), None, {"q": "none", "c": "tuple"}]
    if L == "add_bad":
        return ["add_atom", 6, None, "bad2", None]
    if L == "new":
        return ["new_atom", 1, "N0", fresh_coord(drv, rng)]
    if L == "del_idx0":
        return ["del_atom", ["idx", 0]]
    if L == "del_objlast":
        return ["del_atom", ["obj", last]]
    if L == "del_neg1":
        return ["del_atom", ["idx", -1]]
    if L == "del_label0":
        return ["del_atom", ["label", (m.atoms[0].label if n and m.atoms[0].label else "no-such-label")]]
    if L == "del_elemlast":
        return ["del_atom", ["elem", int(m.atoms[-1].element) if n else 79]]
    if L == "conn_idx":
        return ["connect", ["idx", 0], ["idx", n - 1]]
    if L == "conn_obj":
        return ["connect", ["obj", first], ["obj", last]]
    if L == "app_bond":
        return ["append_bond", first, last] if n else ["del_bond", ["fresh", first, last]]
    if L == "app_bonds":
        return ["append_bonds", ([[first, last], [last, first]] if n else []), "append"]
    if L == "delb_first":
        return ["del_bond", ["pos", 0]] if nb else ["del_bond", ["fresh", first, last]]
    if L == "delb_eq_last":
        if nb:
            b = m.bonds[-1]
            return ["del_bond", ["fresh", drv.an[id(b.a2)], drv.an[id(b.a1)]]]
        return ["del_bond", ["fresh", last, first]]
    if L == "rs_obj":
        if nb:
            b = m.bonds[0]
            return ["remove_substituent", ["obj", drv.an[id(b.a1)]], ["obj", drv.an[id(b.a2)]], "AP"]
        return ["remove_substituent", ["obj", first], ["obj", last], None]
    if L == "rs_rev":
        if nb:
            b = m.bonds[-1]
            return ["remove_substituent", ["idx", m.atoms.index(b.a2)], ["idx", m.atoms.index(b.a1)], None]
        return ["remove_substituent", ["obj", last], ["idx", 0], None]
    if L == "add_h0":
        return ["add_hs", [first]] if n else ["add_hs", None]
    if L == "sub_conn":        # connect the first and the last atom THROUGH a view that lists exactly those two
        pick = [] if n == 0 else ([first] if first == last else [first, last])
        return ["sub", "idx", pick, False, ["connect", ["idx", 0], ["idx", -1]]]
    if L == "adopt_last":      # a Promolecule built from the last Atom object (not a copy), dropped at once
        return ["adopt", [last], "ctor:Promolecule", False] if n else ["sub", "idx", [], False, ["append_bonds", [], "append"]]
    raise AssertionError(L)


# ------------------------------------------------------------------ running one history
def run_history(spec, ops_or_gen, rng, want_views=False):
    """Drives one history.  `ops_or_gen` is a list of JSON ops or a callable (drv, step) -> op | None.
    Returns (coq case term, executed ops, oracle findings [(sig, text, step)], stats)."""
    try:
        m = make_start(spec)
    except Exception as e:        # e.g. the unobserved pre-edits left a molecule that cannot even be cloned
        return ("(empty true, [])", [], [("C05:start:cannot-build", f"building the start state {spec} raised "
                                         f"{type(e).__name__}: {e}", -1)], [])
    drv = Driver(m, spec["kind"])
    snap = drv.snapshot()
    for i, a in enumerate(snap["atoms"]):
        drv.given[id(a)] = (snap["rows"][i] if i < len(snap["rows"]) else None,
                            snap["q"][i] if snap["q"] is not None and i < len(snap["q"]) else None)
    init = drv.state_term(snap)
    findings = [(s, t, -1) for s, t in judge(drv, None, snap, None, False)]
    steps, done, stats = [], [], []
    i = 0
    while True:
        if callable(ops_or_gen):
            try:
                op = ops_or_gen(drv, i)
            except Exception:
                if not findings:      # the generators only fail on a molecule the oracle has already condemned
                    raise
                break
        else:
            op = ops_or_gen[i] if i < len(ops_or_gen) else None
        if op is None:
            break
        drv.pending_given = None
        term, raised, exn = drv.execute(op)
        after = drv.snapshot()
        # what newly appeared atoms were given
        seen = {id(a) for a in snap["atoms"]}
        for j, a in enumerate(after["atoms"]):
            if id(a) in seen or id(a) in drv.given:
                continue
            if drv.pending_given is not None and drv.pending_given[0] is a:
                drv.given[id(a)] = (drv.pending_given[1], drv.pending_given[2] if after["q"] is not None else None)
            elif op[0] == "new_atom":
                drv.given[id(a)] = (drv.pending_row if drv.pending_row is not None else drv.rowkey(op[3]),
                                    0.0 if after["q"] is not None else None)
            else:   # created inside the library (attachment point, hydrogens): what it shows now is what it was given
                drv.given[id(a)] = (after["rows"][j] if j < len(after["rows"]) else None,
                                    0.0 if after["q"] is not None else None)
        for s, t in judge(drv, snap, after, op, raised):
            findings.append((s, t, i))
        if want_views and rng.random() < 0.3:
            for s, t in view_checks(drv, rng):
                findings.append((s, t, i))
        steps.append(f"({term}, {drv.obs_term(raised, after)})")
        done.append(op)
        stats.append((op_key(op), exn))
        snap = after
        i += 1
    case = f"({init},\n  {cq_list(steps)})"
    return case, done, findings, stats


# ------------------------------------------------------------------ recorded findings: witnesses replayed on every run
def confirm_known():
    import numpy as np
    import molli as ml
    from molli.chem import Atom, Bond
    out = []
    m = ml.Molecule.load_mol2(str(ml.files.dmf_mol2))
    other = ml.Molecule.load_mol2(str(ml.files.benzene_mol2))
    for foreign, what in ((Atom("Cl"), "a free Atom"), (other.atoms[0], "an atom of another molecule")):
        m = ml.Molecule.load_mol2(str(ml.files.dmf_mol2))
        try:
            m.append_bond(Bond(m.atoms[0], foreign))
        except Exception:
            continue                 # rejected: that is a repair of this finding
        if m.n_atoms != len(m.coords) or m.n_atoms != len(m.atomic_charges):
            out.append((KNOWN_FOREIGN, f"dmf.append_bond(Bond(dmf.atoms[0], {what})): {m.n_atoms} atoms, coords {m.coords.shape}, "
                        f"charges {m.atomic_charges.shape}", {"kind": "known", "which": "foreign"}))
            break
    # a coordinate of numeric STRINGS (e.g. line.split()[1:4]) passes the validation (np.array(coord, dtype=float) has
    # shape (3,)) but the unconverted object is what np.append stores: the whole coordinate table turns into strings
    for cls in (ml.Molecule, ml.Structure):
        m = cls.load_mol2(str(ml.files.dmf_mol2))
        try:
            m.add_atom(Atom("H"), ["0.5", "0.25", "0.125"])
        except Exception:
            continue                 # refused: that is a repair of this finding
        c = np.asarray(m.coords)
        if c.dtype.kind not in "fiu":
            out.append((KNOWN_STRCOORD, f"{cls.__name__}(dmf).add_atom(Atom('H'), ['0.5', '0.25', '0.125']) returned and coords has "
                        f"dtype {c.dtype}: row 0 is now {c[0].tolist()!r}", {"kind": "known", "which": "strcoord"}))
            break
    return out


# ------------------------------------------------------------------ entry points
QSET_FORMS = ["list", "tuple", "intarr", "intlist", "f32"]


def spell_start(spec, rng):
    """How the start state itself is written: the charge array as list / tuple / int / single-precision array,
    the clone with all constructor defaults written out or with the charges handed to the constructor."""
    if spec["kind"] == "mol" and rng.random() < 0.4:
        spec["qset"] = rng.choice(QSET_FORMS)
    if spec.get("clone") and rng.random() < 0.4:
        spec["cl"] = rng.choice(["defaults", "qctor"] if spec["kind"] == "mol" else ["defaults"])


def spell_tags(op):
    """The spellings one executed op used (for the input distribution)."""
    k, out = op[0], []
    sp = None
    if k == "add_atom":
        sp = op[5] if len(op) > 5 and op[5] else {}
        out.append("add_atom:coord=" + ("malformed:" if isinstance(op[3], str) else "") + sp.get("c", "list"))
        out.append("add_atom:charge=" + (sp.get("q") or ("omit" if op[4] is None else "float")))
    elif k == "new_atom":
        sp = op[4] if len(op) > 4 and op[4] else {}
        out.append("new_atom:coord=" + sp.get("c", "list") + ("" if sp.get("c") == "omit" else (":kw" if sp.get("ckw", True) else ":positional")))
        out.append("new_atom:element=" + sp.get("e", "enum"))
        out.append("new_atom:isotope=" + ("posnone" if (sp.get("c") != "omit" and not sp.get("ckw", True)) else sp.get("iso", "omit")))
        out.append("new_atom:label=" + ("omit" if (sp.get("l") == "omit" and op[2] is None) else ("none" if op[2] is None else "str")))
    elif k == "connect":
        out.append("connect:kwds=" + str(op[3] if len(op) > 3 else None))
    elif k == "append_bonds":
        out.append("append_bonds:how=" + op[2])
    elif k == "remove_substituent":
        out.append("remove_substituent:ap_label=" + ("omit" if (len(op) > 4 and op[4] == "omit" and op[3] is None) else
                                                     ("none" if op[3] is None else "str")))
    if any(isinstance(x, list) and len(x) == 2 and x[0] == "npidx" for x in op[1:]):
        out.append(k + ":index=numpy-integer")
    return out


def plan(ctx):
    """The list of (spec, mode, payload) of this run."""
    import molli as ml
    rng = ctx.rng
    jobs = []
    n_rand = 20000 if ctx.thorough else 700
    cd_keys = list(ml.CDXMLFile(ml.files.parser_demo_cdxml).keys())
    for _ in range(n_rand):
        kind = "mol" if rng.random() < 0.7 else "struct"
        z = rng.random()
        if z < 0.15:
            spec = {"src": "empty", "kind": kind}
        elif z < 0.25:
            spec = {"src": "cdxml:" + rng.choice(cd_keys), "kind": kind, "clone": rng.random() < 0.3}
        else:
            spec = {"src": rng.choices(MOL2_STARTS, MOL2_WEIGHTS)[0], "kind": kind, "clone": rng.random() < 0.35}
            if spec["clone"] and rng.random() < 0.5:
                spec["pre"] = [["del_atom", ["idx", rng.randrange(2)]], ["new_atom", 6, None, [9.5, 8.25, 7.125]],
                               ["connect", ["idx", 0], ["idx", -1]]]
        spell_start(spec, rng)
        big = spec["src"] in ("dendrobine_mol2", "isornitrate_mol2", "box_backbone_mol2")
        length = rng.randint(3, 14) if big else rng.randint(5, 40)
        jobs.append((spec, "random", length))
    for _ in range(5000 if ctx.thorough else 300):          # shared Atom objects: views and adoption interleaved
        kind = "mol" if rng.random() < 0.7 else "struct"
        z = rng.random()
        if z < 0.08:
            spec = {"src": "empty", "kind": kind}
        elif z < 0.18:
            spec = {"src": "cdxml:" + rng.choice(cd_keys), "kind": kind, "clone": rng.random() < 0.3}
        else:
            spec = {"src": rng.choices(MOL2_STARTS, MOL2_WEIGHTS)[0], "kind": kind, "clone": rng.random() < 0.35}
        spell_start(spec, rng)
        big = spec["src"] in ("dendrobine_mol2", "isornitrate_mol2", "box_backbone_mol2")
        jobs.append((spec, "shared", rng.randint(3, 10) if big else rng.randint(4, 25)))
    depth = 3 if ctx.thorough else 2
    starts = [{"src": "empty", "kind": "mol"}, {"src": "empty", "kind": "struct"},
              {"src": "dummy_mol2", "kind": "mol"}, {"src": "dummy_mol2", "kind": "struct"},
              {"src": "dummy_mol2", "kind": "mol", "clone": True}]
    for spec in starts:
        for d in range(1, depth + 1):
            for word in itertools.product(ALPHABET, repeat=d):
                jobs.append((spec, "word", list(word)))
    return jobs


def run(ctx, rep):
    rep.rule = ("edit histories through the public API of Molecule / Structure from empty, mol2-/CDXML-loaded and cloned "
                "molecules: random (length 5..40) and ALL words of length <= 2 (quick) / 3 (thorough) over a 21-letter "
                "alphabet from 5 small start states; every step is observed (atoms, bonds, coordinate rows, charges, "
                "get_atom_index, parent, idx keyed by object identity) and replayed by the Coq model; a history is "
                "non-trivial when at least one operation succeeded and one atom or bond was added or removed; distinct by "
                "(start, operation list).  Shared Atom objects: the same random histories interleaved with bond operations "
                "through one-shot Substructure views (built from indices / Atom objects / a generator / .heavy, kept or "
                "dropped) and with adoptions of 1..3 atoms by another container (6 routes, kept or dropped), followed by "
                "directed edits naming the adopted atoms; two more letters (view connect, adoption) in the word alphabet.  "
                "Ensembles (oracle only): bond operations through Conformer views (ens[k] / iteration / slice) and on the "
                "ensemble, 5 ensembles.  Spelling of arguments (every family): the optional charge of add_atom omitted / "
                "explicit None (positional, keyword) / float / keyword / int / np.float64 / np.float32 / np.int64 / 0-d array; "
                "coordinates as list / tuple / float64 / float32 / int64 array / list of ints / list of numpy scalars / row view / "
                "strided column view of a caller-owned buffer that the caller overwrites right after the call; new_atom with the "
                "coordinate omitted (default row), positional or keyword, element as Element / int / symbol, isotope and label "
                "omitted or None; connect with bond keywords written out; extend_bonds with iterator / list / tuple / generator; "
                "remove_substituent with ap_label omitted / None / str; indices as numpy integers; start states with the charge "
                "array set from list / tuple / int / float32 array, clones with all constructor defaults written out or the "
                "charges handed to the constructor")
    rep.trusted += ["harness/c05.py: driver, identity->name renaming (strong references kept, so id() is never reused), "
                    "row/charge/label token maps, Coq literal emission",
                    "CPython 3.12 + numpy executing molli/chem/{atom,bond,geometry,structure,molecule}.py",
                    "numpy array semantics (np.append / np.delete on rows) are modelled as list append / delete-nth",
                    "harness/c05.py: construction of the argument objects in the requested form (mk_coord / mk_charge), the exact "
                    "double-precision value of what was handed over (coord_given)"]
    rep.assumptions += ["objects handed to add_atom / append_bond(s) are newly constructed (adding the same Atom or Bond "
                        "object twice is outside the alphabet)",
                        "append_bond(s) only between atoms of the molecule (foreign atoms: recorded finding, replayed separately)",
                        "add_implicit_hydrogens: only the structural effect is modelled; how many hydrogens and where is C16",
                        "Conformer / Substructure: atom edits are not defined on the views (add/del raise, now without side "
                        "effect); the oracle checks that a Substructure shows the parent's rows",
                        "bond operations through a Substructure view name atoms of the view only (an atom outside the view is "
                        "adopted by the view: the recorded finding again); one operation per view",
                        "an atom adopted by another container legitimately reports that container (or None) as parent and Atom.idx "
                        "answers for that container: not judged for those atoms; everything else is",
                        "ensembles: whether a bond added through a Conformer reports the ensemble or the Conformer as parent is not judged",
                        "a numpy integer used as an atom index may be refused (ValueError, nothing changed) or taken for the int it "
                        "equals: both are accepted, the model term is chosen from the outcome; bool is not an index",
                        "coordinates and charges are numbers in some numeric container; numeric STRINGS as a coordinate: recorded "
                        "finding, replayed separately, not part of the histories"]
    import warnings
    warnings.simplefilter("ignore")
    ok, out, where = vlib.build_props(ctx, rep, "C05")

    rng = ctx.rng
    cases, meta, found = [], [], False
    for spec, mode, payload in plan(ctx):
        if mode == "random":
            L = payload
            gen = (lambda drv, i, L=L: gen_op(drv, rng) if i < L else None)
        elif mode == "shared":
            L = payload
            gen = (lambda drv, i, L=L: gen_op_shared(drv, rng) if i < L else None)
        else:
            word = payload
            gen = (lambda drv, i, word=word: resolve_letter(drv, rng, word[i]) if i < len(word) else None)
        case, done, findings, stats = run_history(spec, gen, rng, want_views=(mode != "word"))
        cases.append(case)
        meta.append((spec, done))
        nontrivial = any(e is None for k, e in stats)
        key = json.dumps([spec, done if mode != "word" else payload], sort_keys=True)
        rep.case(key=key if nontrivial else None, sample={"start": spec, "ops": done[:4]} if mode != "word" else None)
        rep.count("family:" + {"random": "own-edits", "shared": "shared-atoms", "word": "words"}[mode])
        rep.count("start:" + spec["src"].split(":")[0] + (":clone" if spec.get("clone") else "") + ":" + spec["kind"])
        if spec["kind"] == "mol":
            rep.count("spelling:start:charges=" + spec.get("qset", "arr"))
        if spec.get("clone"):
            rep.count("spelling:start:clone=" + spec.get("cl", "plain"))
        if mode == "shared":
            for o in done:
                if o[0] == "sub":
                    rep.count("view:built-from:" + o[1] + (":kept" if o[3] else ":dropped"))
            touched, dis = 0, set()
            for o in done:                       # ordinary edits that name an atom adopted earlier in the history
                if o[0] == "adopt":
                    dis.update(o[1])
                elif o[0] != "sub" and dis and any(x in dis for x in _named(o)):
                    touched += 1
            rep.count("shared:edits-naming-an-adopted-atom", touched)
        for (k, e), o in zip(stats, done):
            rep.count(f"op:{k}:" + ("ok" if e is None else e))
            if k == "del_atom":
                rep.count("del_atom:by-" + o[1][0])
            for t in spell_tags(o):
                rep.count("spelling:" + t + (":raised" if (e is not None and t.endswith("numpy-integer")) else ""))
        seen = set()
        for sig, text, step in findings:
            if sig in seen:
                continue
            seen.add(sig)
            found = True
            rep.violate(sig, text + f" [start={spec}, step {step}]", {"kind": "history", "spec": spec, "ops": done[:step + 1] if step >= 0 else []})
    for sig, text, rp in confirm_known():
        rep.violate(sig, text, rp)
    if ensemble_family(ctx, rep):
        found = True
    vfound, nv = view_edit_checks()
    for sig, text, rp in vfound:
        found = True
        rep.violate(sig, text, rp)
    for _ in range(nv):
        rep.case(key=None)
    rep.count("view-edit-scenarios", nv)

    bad = vlib.run_shards(ctx, rep, "c05", HEADER, "check_case", cases, shard=(120 if ctx.thorough else 60),
                          timeout=900, case_type="case")
    if bad is None:
        vlib.broken_obligation(rep, "corr_c05", "a correspondence shard did not compile: " +
                               json.dumps(rep.extra.get("shard_errors", ""))[-1500:], found)
    elif bad:
        rep.extra["mismatching_cases"] = [{"start": meta[i][0], "ops": meta[i][1]} for i in bad[:5]]
        if not found:
            # the oracle has already judged every one of these histories; widen: shorter prefixes with view checks
            for i in bad[:20]:
                spec, done = meta[i]
                _, _, findings, _ = run_history(spec, done, rng, want_views=True)
                for sig, text, step in findings:
                    found = True
                    rep.violate(sig, text, {"kind": "history", "spec": spec, "ops": done[:step + 1]})
        vlib.broken_obligation(rep, "corr_c05", f"{len(bad)} histories on which model and implementation disagree, first: "
                               + json.dumps({"start": meta[bad[0]][0], "ops": meta[bad[0]][1]})[:1500], found)
    if not ok:
        vlib.broken_obligation(rep, "C05_theorems", f"{where}\n{out[-1500:]}", found)


def replay(ctx, data):
    out = []
    if data.get("kind") == "known":
        for sig, text, rp in confirm_known():
            if rp["which"] == data.get("which"):
                out.append(vlib.Violation(sig, text))
    elif data.get("kind") == "view":
        for sig, text, rp in view_edit_checks()[0]:
            out.append(vlib.Violation(sig, text))
    elif data.get("kind") == "ens":
        seen = set()
        for sig, text, step in run_ens_history(data["src"], data["ops"])[0]:
            if sig not in seen:
                seen.add(sig)
                out.append(vlib.Violation(sig, text))
    elif data.get("kind") == "history":
        _, _, findings, _ = run_history(data["spec"], data["ops"], ctx.rng, want_views=True)
        seen = set()
        for sig, text, step in findings:
            if sig not in seen:
                seen.add(sig)
                out.append(vlib.Violation(sig, text))
    return out
