"""C19 -- distance kernels and grid descriptors equal their mathematical definition.

Theorems: coq/Props/C19.v (kernels over R about the Fops-parametric model coq/Model/Dist.v; grid descriptors over Q
about coq/Model/Grid.v).

Tie H, kernels: molli_xt/distance.cpp is RECOMPILED FROM SOURCE on every run against tools/pybind11_shim (a stand-in for
the four pybind11 names it uses; pybind11 itself is not installed, so the shipped molli_xt*.so cannot be rebuilt) and every
function it registers is driven through tools/pybind11_shim/drv.cpp; the shipped extension is driven through Python with
C-contiguous, strided, transposed, Fortran-ordered, reversed and integer inputs.  Both are compared INSIDE Coq with the
model run over Q (`Model.Dist.check`, vm_compute): equality on dyadic inputs with few mantissa bits (every float32/float64
operation is then exact), a stated relative bound on generic floats.
Tie H, grid descriptors: rectangular_grid / nearest_atom_index / prune / aso / aeif / atomic_indicator_field are driven with
dyadic and generic boxes, spacings, ensembles, weights and charges; observations are passed as exact rationals and judged by
`Model.Grid.gcheck` inside Coq (grid points within a rounding band of a sphere surface are left out, as the property says).
Oracle: the property judged on the implementation alone against an independent float64 numpy evaluation.
"""
import os, json, math, struct
from fractions import Fraction as Fr
import vlib
from vlib import cq_list, cq_Q, cq_nat, cq_bool, cq_Z

HEADER_D = ("From Coq Require Import List ZArith QArith.\nImport ListNotations.\n"
            "From Molli Require Import Common.Field3 Model.Dist.\n")
HEADER_G = ("From Coq Require Import List ZArith QArith.\nImport ListNotations.\n"
            "From Molli Require Import Common.Field3 Model.Grid.\n")
SHIM = os.path.join(vlib.VERIF, "tools", "pybind11_shim")
NAMES = [f"cdist{k}{v}_{m}" for k in ("22", "32") for v in ("", "f", "d") for m in ("eu", "eu2")]
TOL32, TOL64 = Fr(1, 2 ** 20), Fr(1, 2 ** 48)        # relative bound on generic floats (0 on dyadic inputs)
LAYOUTS = ["C", "strided", "transposed", "fortran", "reversed", "int", "mixed"]


def np_():
    import numpy as np
    return np


# ------------------------------------------------------------------ Coq literals
def q(x):
    return cq_Q(Fr(x))


def vq(v):
    return "(" + ", ".join(q(x) for x in v) + ")"


def rowsq(X):
    return cq_list(vq(r) for r in X)


def natl(l):
    return cq_list(cq_nat(int(i)) for i in l)


# ------------------------------------------------------------------ kernels: inputs
def rand_shape(rng, k32):
    def n():
        r = rng.random()
        return 0 if r < 0.12 else 1 if r < 0.25 else rng.randint(2, 7)
    x = (0 if rng.random() < 0.12 else rng.randint(1, 3)) if k32 else None
    return x, n(), n()


def dyadic(rng):
    return rng.randint(-1023, 1023) / 16.0          # |k| < 2^10, 4 fractional bits: sums of 3 squares fit 24 bits


def kernel_inputs(ctx):
    """(name, dtype 'f'|'d', exact?, arr1 (nested list), arr2) ; shapes incl. 0 everywhere."""
    rng = ctx.rng
    np = np_()
    out = []
    reps = 2 if not ctx.thorough else 12
    for name in NAMES:
        k32 = name.startswith("cdist32")
        for dt in ("f", "d"):
            for exact in (True, False):
                for _ in range(reps if exact else max(1, reps // 2)):
                    x, l1, l2 = rand_shape(rng, k32)
                    if exact:
                        gen = lambda: dyadic(rng)
                    else:
                        typ = np.float32 if (dt == "f" or name[7] == "f") else np.float64
                        gen = lambda: float(typ(rng.uniform(-20, 20)))
                    a = [[gen() for _ in range(3)] for _ in range(l1)] if not k32 else \
                        [[[gen() for _ in range(3)] for _ in range(l1)] for _ in range(x)]
                    b = [[gen() for _ in range(3)] for _ in range(l2)]
                    out.append(dict(name=name, dt=dt, exact=exact, shape1=([x, l1, 3] if k32 else [l1, 3]), a=a, b=b))
    # corner shapes for every generic name
    for name in ("cdist22_eu2", "cdist22_eu", "cdist32_eu2", "cdist32_eu"):
        k32 = name.startswith("cdist32")
        for (x, l1, l2) in [(0, 0, 0), (0, 3, 2), (2, 0, 3), (2, 3, 0), (1, 1, 1)]:
            a = [[dyadic(rng) for _ in range(3)] for _ in range(l1)]
            a = [list(map(list, a)) for _ in range(x)] if k32 else a
            b = [[dyadic(rng) for _ in range(3)] for _ in range(l2)]
            for dt in ("f", "d"):
                out.append(dict(name=name, dt=dt, exact=True, shape1=([x, l1, 3] if k32 else [l1, 3]), a=a, b=b))
    return out


def np_arrays(inp):
    np = np_()
    typ = np.float32 if inp["dt"] == "f" else np.float64
    return np.array(inp["a"], dtype=typ).reshape(inp["shape1"]), np.array(inp["b"], dtype=typ).reshape((len(inp["b"]), 3))


def reference(inp):
    """independent float64 numpy evaluation"""
    np = np_()
    a, b = np_arrays(inp)
    a, b = a.astype(np.float64), b.astype(np.float64)
    d = ((a[..., :, None, :] - b[None, :, :]) ** 2).sum(-1)
    return d if inp["name"].endswith("eu2") else np.sqrt(d)


def layout(arr, how, rng):
    """same values, different memory layout / dtype"""
    np = np_()
    if how == "C":
        return np.ascontiguousarray(arr)
    if how == "strided":
        big = np.zeros(tuple(2 * s for s in arr.shape), dtype=arr.dtype) + 7
        sl = tuple(slice(rng.randint(0, 1), None, 2) for _ in arr.shape)
        big[sl] = arr
        return big[sl]
    if how == "transposed":
        base = np.ascontiguousarray(np.transpose(arr))
        return np.transpose(base)
    if how == "fortran":
        return np.asfortranarray(arr)
    if how == "reversed":
        return np.ascontiguousarray(arr[::-1])[::-1]
    raise ValueError(how)


# ------------------------------------------------------------------ kernels: the two implementations
def build_shim(ctx):
    """g++ build of $MOLLI_REPO/molli_xt/distance.cpp against the shim, into the per-run scratch dir."""
    exe = os.path.join(ctx.sub("shim"), "xt_drv")
    cmd = ["g++", "-O2", "-std=c++17", "-I", SHIM, "-I", os.path.join(vlib.REPO, "molli_xt"),
           os.path.join(SHIM, "drv.cpp"), "-o", exe]
    rc, out = vlib.sh(cmd, 180)
    return (exe if rc == 0 else None), out


def hexf(x):
    return float(x).hex()


def run_shim(exe, inputs):
    """returns per input ('ok', shape, flat values) | ('err', reason)"""
    lines = [str(len(inputs))]
    for inp in inputs:
        flat_a = [v for row in (inp["a"] if len(inp["shape1"]) == 2 else [r for blk in inp["a"] for r in blk]) for v in row]
        flat_b = [v for row in inp["b"] for v in row]
        lines.append(" ".join([inp["name"], inp["dt"], str(len(inp["shape1"]))] + [str(s) for s in inp["shape1"]]
                              + [str(len(inp["b"])), "3"] + [hexf(v) for v in flat_a + flat_b]))
    rc, out = vlib.sh([exe], 300, inp="\n".join(lines) + "\n")
    res = []
    for ln in out.splitlines():
        t = ln.split()
        if not t:
            continue
        if t[0] == "ok":
            nd = int(t[1])
            shape = [int(s) for s in t[2:2 + nd]]
            res.append(("ok", shape, [float.fromhex(v) for v in t[2 + nd:]]))
        else:
            res.append(("err", " ".join(t[1:])))
    if rc != 0 or len(res) != len(inputs):
        return None, f"driver exit {rc}, {len(res)} of {len(inputs)} results; output tail: {out[-400:]}"
    return res, ""


def run_ext(inp, how, rng):
    np = np_()
    import molli_xt
    a, b = np_arrays(inp)
    if how == "int":
        a, b = a.astype(np.int64), b.astype(np.int64)
    elif how == "mixed":
        a, b = a.astype(np.float64), b.astype(np.float32)
    else:
        a, b = layout(a, how, rng), layout(b, how, rng)
    try:
        r = getattr(molli_xt, inp["name"])(a, b)
    except Exception as e:  # noqa
        return ("err", f"{type(e).__name__}: {e}"[:200])
    r = np.asarray(r)
    return ("ok", list(r.shape), [float(v) for v in r.ravel()], str(r.dtype), bool(a.flags.c_contiguous and b.flags.c_contiguous))


def kernel_term(inp, obs, tol):
    k32 = inp["name"].startswith("cdist32")
    sq = inp["name"].endswith("eu2")
    blocks = inp["a"] if k32 else [inp["a"]]
    l1 = inp["shape1"][-2]
    return (f"(mkCase {'K32' if k32 else 'K22'} {cq_bool(sq)} {q(tol)} {cq_nat(l1)} {cq_list(rowsq(b) for b in blocks)} "
            f"{rowsq(inp['b'])} {natl(obs[1])} {cq_list(q(v) for v in obs[2])})")


def judge_kernel(inp, obs, eff_dt):
    """oracle: shape and values against the float64 numpy reference. eff_dt: element type the INPUT had ('f'/'d')."""
    np = np_()
    ref = reference(inp)
    if obs[0] != "ok":
        return "raises", f"{inp['name']} raised {obs[1]} on shapes {inp['shape1']} x {[len(inp['b']), 3]}"
    if list(obs[1]) != list(ref.shape):
        return "wrong-shape", f"{inp['name']} returned shape {obs[1]}, expected {list(ref.shape)}"
    got = np.array(obs[2], dtype=np.float64).reshape(ref.shape)
    if not np.isfinite(got).all():
        return "wrong-value", f"{inp['name']} returned a non-finite value"
    rtol = 0.0 if inp["exact"] and inp["name"].endswith("eu2") else (4e-6 if eff_dt == "f" else 1e-12)
    bad = np.abs(got - ref) > rtol * np.abs(ref)
    if bad.any():
        ix = tuple(int(i) for i in np.argwhere(bad)[0])
        return "wrong-value", (f"{inp['name']}({'float32' if eff_dt == 'f' else 'float64'}) entry {ix} = {got[ix]!r}, "
                               f"numpy float64 evaluation gives {ref[ix]!r} (rows {inp['shape1']} x {[len(inp['b']), 3]})")
    return None


def tol_of(inp, computed_in):
    if inp["exact"]:
        return Fr(0) if inp["name"].endswith("eu2") else (TOL32 if computed_in == "f" else TOL64)
    return TOL32 if computed_in == "f" else TOL64


def kernels(ctx, rep):
    """returns (terms, owners(list of replay dicts), oracle-violating owner ids, known signatures reproduced)"""
    np = np_()
    rng = ctx.rng
    inputs = kernel_inputs(ctx)
    terms, owners, flagged, known = [], [], set(), set()
    # ---- shim build of the current source
    exe, log = build_shim(ctx)
    rep.oblig("shim-build:distance.cpp", exe is not None)
    if exe is None:
        vlib.broken_obligation(rep, "shim-build", "molli_xt/distance.cpp no longer compiles against tools/pybind11_shim "
                               "(the check cannot follow the C++ source): " + log[-1200:], False)
    else:
        sel = [i for i in inputs if (i["name"][7] not in "fd") or i["name"][7] == i["dt"]]
        res, why = run_shim(exe, sel)
        if res is None:
            vlib.broken_obligation(rep, "shim-run", why, False)
        else:
            for inp, obs in zip(sel, res):
                rd = dict(kind="kernel", via="shim", name=inp["name"], dt=inp["dt"], exact=inp["exact"], shape1=inp["shape1"], a=inp["a"], b=inp["b"])
                rep.count("kernel:shim:" + ("exact" if inp["exact"] else "generic"))
                v = judge_kernel(inp, obs, inp["dt"])
                if v:
                    flagged.add(len(owners))
                    rep.violate(f"C19:kernel:source:{inp['name']}:{v[0]}", "built from molli_xt/distance.cpp: " + v[1], rd)
                if obs[0] == "ok":
                    rep.case(key=("ks", inp["name"], inp["dt"], json.dumps(inp["shape1"]), len(inp["b"]), inp["exact"], json.dumps(inp["a"])[:200]),
                             sample=None)
                    terms.append(kernel_term(inp, obs, tol_of(inp, inp["dt"])))
                    owners.append(rd)
                else:
                    rep.case(key=None)
    # ---- shipped extension through Python
    for n, inp in enumerate(inputs):
        hows = ["C"] + ([LAYOUTS[1 + (n % 6)]] if not ctx.thorough else LAYOUTS[1:])
        for how in hows:
            if how in ("int", "mixed") and not inp["exact"]:
                continue
            use = inp
            if how == "int":
                use = dict(inp, a=np.trunc(np.array(inp["a"], dtype=float)).reshape(inp["shape1"]).tolist(),
                           b=np.trunc(np.array(inp["b"], dtype=float)).reshape((len(inp["b"]), 3)).tolist())
            obs = run_ext(use, how, rng)
            rd = dict(kind="kernel", via="ext", layout=how, name=use["name"], dt=use["dt"], exact=use["exact"], shape1=use["shape1"], a=use["a"], b=use["b"])
            rep.count(f"kernel:ext:{how}:" + ("exact" if use["exact"] else "generic"))
            v = judge_kernel(use, obs, use["dt"] if (use["name"][7] != "f" and how not in ("int", "mixed")) else "f")
            if v:
                sig = f"C19:kernel:ext:{use['name']}:{v[0]}"
                if (v[0] == "wrong-value" and use["dt"] == "d" and use["name"][7] == "_" and how not in ("int", "mixed")
                        and obs[0] == "ok" and obs[3] == "float32" and not obs[4]):
                    sig = "C19:kernel:ext:float64-strided-input-computed-in-float32"
                    known.add(sig)
                else:
                    flagged.add(len(owners))
                rep.violate(sig, f"layout={how}: " + v[1] + (f"; result dtype {obs[3]}" if obs[0] == "ok" else ""), rd)
            if obs[0] == "ok":
                rep.case(key=("ke", use["name"], use["dt"], how, json.dumps(use["shape1"]), len(use["b"]), use["exact"], json.dumps(use["a"])[:200]),
                         sample=(dict(rd, a="...", b="...") if n % 150 == 0 else None))
                terms.append(kernel_term(use, obs, tol_of(use, "f" if obs[3] == "float32" else "d")))
                owners.append(rd)
            else:
                rep.case(key=None)
    return terms, owners, flagged, known


# ------------------------------------------------------------------ the run
def run(ctx, rep):
    rep.rule = ("a case = one call of the implementation (a kernel registered by the C++ source, built from source; the same kernel in the "
                "shipped extension; a grid / descriptor function); non-trivial when it returned an observation that was compared with the "
                "model inside Coq; distinct by function, element type, layout, shapes and input values")
    rep.trusted += ["harness/c19.py: generators, float -> exact rational encoding (Fraction(float)), layouts",
                    "tools/pybind11_shim (array_t / module_ stand-in, driver) + g++: the source build runs the registered kernels outside CPython",
                    "CPython / numpy / scipy.spatial.KDTree executing molli (IEEE rounding only tolerance-checked)"]
    rep.assumptions += ["kernels: equality on dyadic inputs (|k|<2^10, 4 fractional bits), relative 2^-20 (float32) / 2^-48 (float64) on generic floats",
                        "sqrt is modelled by its specification: d >= 0 and d*d within s*tol of s (C19_sqrt_close)"]
    ok, out, where = vlib.build_props(ctx, rep, "C19")
    found = False
    terms, owners, flagged, known = kernels(ctx, rep)
    found = found or any(not v.no_input for v in rep.violations)
    bad = vlib.run_shards(ctx, rep, "c19k", HEADER_D, "check", terms, shard=max(1, -(-len(terms) // 12)), timeout=600, case_type="case")
    rep.extra["kernel_shard_cases"] = len(terms)
    report_bad(ctx, rep, "corr_c19k", bad, owners, flagged, found)
    if not ok:
        vlib.broken_obligation(rep, "C19_props", f"{where}\n{out[-1500:]}", found)
    return tuple(sorted(known))


def report_bad(ctx, rep, name, bad, owners, flagged, found):
    if bad is None:
        vlib.broken_obligation(rep, name, "a correspondence shard did not compile: " + str(rep.extra.get("shard_errors", ""))[-800:], found)
    elif bad:
        unexplained = [b for b in bad if b not in flagged]
        rep.extra.setdefault("mismatching_cases", []).extend(
            [{k: (v if k not in ("a", "b") else str(v)[:300]) for k, v in owners[b].items()} for b in bad[:6]])
        if unexplained and not found:
            vlib.broken_obligation(rep, name, f"{len(unexplained)} case(s) differ from the model although the oracle accepted them, e.g. "
                                   + json.dumps(owners[unexplained[0]], default=str)[:700], False)


def replay(ctx, data):
    np = np_()
    out = []
    if data.get("kind") == "kernel":
        inp = dict(name=data["name"], dt=data["dt"], exact=data["exact"], shape1=data["shape1"], a=data["a"], b=data["b"])
        if data["via"] == "shim":
            exe, log = build_shim(ctx)
            if exe is None:
                return [vlib.Violation("broken:shim-build", log[-500:], data, no_input=True)]
            res, why = run_shim(exe, [inp])
            obs = res[0] if res else ("err", why)
            v = judge_kernel(inp, obs, inp["dt"])
            if v:
                out.append(vlib.Violation(f"C19:kernel:source:{inp['name']}:{v[0]}", v[1], data))
        else:
            obs = run_ext(inp, data["layout"], ctx.rng)
            v = judge_kernel(inp, obs, inp["dt"] if (inp["name"][7] != "f" and data["layout"] not in ("int", "mixed")) else "f")
            if v:
                sig = f"C19:kernel:ext:{inp['name']}:{v[0]}"
                if (v[0] == "wrong-value" and inp["dt"] == "d" and inp["name"][7] == "_" and obs[0] == "ok" and obs[3] == "float32" and not obs[4]):
                    sig = "C19:kernel:ext:float64-strided-input-computed-in-float32"
                out.append(vlib.Violation(sig, v[1], data))
    return out
