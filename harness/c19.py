"""C19 -- distance kernels and grid descriptors equal their mathematical definition.

Theorems: coq/Props/C19.v (kernels over R about the Fops-parametric model coq/Model/Dist.v; grid descriptors over Q
about coq/Model/Grid.v).

Tie H, kernels: molli_xt/distance.cpp is RECOMPILED FROM SOURCE on every run against tools/pybind11_shim (a stand-in for
the four pybind11 names it uses; pybind11 itself is not installed, so the shipped molli_xt*.so cannot be rebuilt) and every
function it registers is driven through tools/pybind11_shim/drv.cpp; the shipped extension is driven through Python with
C-contiguous, strided, transposed, Fortran-ordered, reversed and integer inputs.  Both are compared INSIDE Coq with the
model run over Q (`Model.Dist.check`, vm_compute): equality on dyadic inputs with few mantissa bits (every float32/float64
operation is then exact), a stated relative bound on generic floats.
Tie H, grid descriptors: rectangular_grid / nearest_atom_index / prune / aso / aeif / atomic_indicator_field are driven with
dyadic and generic boxes, spacings, ensembles, weights and charges; observations are passed as exact rationals and judged by
`Model.Grid.gcheck` inside Coq (grid points within a rounding band of a sphere surface are left out, as the property says).
Oracle: the property judged on the implementation alone against an independent float64 numpy evaluation.
Argument kinds: every function is also called with its array arguments as list / tuple / ndarray of either float width and of
integers / a view of a larger array / a read-only array, with the SAME object as both corners, with the same argument objects in
several consecutive calls -- every call is judged against the values the caller passed, and every argument must be bit-for-bit
unchanged after the call.
Size: ensembles of up to 70 conformers / 70 atoms and grids of 10^3 .. 1.5 10^5 points whose sizes are, and are not, multiples of
powers of two (distance arrays of 2^16 .. 2^24 elements), so that any internal blocking is crossed; such cases are judged in full
by the numpy oracle (evaluated block-wise with its own ceil-count blocks) and inside Coq at a SAMPLE of grid points (first / last
points, the points around every candidate block boundary, random and non-zero points) -- the literal of the whole grid would be
too large; C19_blockwise / C19_sample / C19_grid_at state why a point-wise sample is meaningful.
"""
import os, json, math, struct
from fractions import Fraction as Fr
import vlib
from vlib import cq_list, cq_Q, cq_nat, cq_bool, cq_Z

HEADER_D = ("From Coq Require Import List ZArith QArith.\nImport ListNotations.\n"
            "From Molli Require Import Common.Field3 Model.Dist.\n")
HEADER_G = ("From Coq Require Import List ZArith QArith.\nImport ListNotations.\n"
            "From Molli Require Import Common.Field3 Model.Grid.\n")
SHIM = os.path.join(vlib.VERIF, "tools", "pybind11_shim")
NAMES = [f"cdist{k}{v}_{m}" for k in ("22", "32") for v in ("", "f", "d") for m in ("eu", "eu2")]
TOL32, TOL64 = Fr(1, 2 ** 20), Fr(1, 2 ** 48)        # relative bound on generic floats (0 on dyadic inputs)
KNOWN_F32 = "C19:kernel:ext:float64-strided-input-computed-in-float32"
KNOWN_AXIS = "C19:kernel:ext:last-axis-length-not-checked"
LAYOUTS = ["C", "strided", "transposed", "fortran", "reversed", "int", "mixed"]


def np_():
    import numpy as np
    return np


# ------------------------------------------------------------------ Coq literals
def q(x):
    return cq_Q(Fr(x))


def vq(v):
    return "(" + ", ".join(q(x) for x in v) + ")"


def rowsq(X):
    return cq_list(vq(r) for r in X)


def natl(l):
    return cq_list(cq_nat(int(i)) for i in l)


# ------------------------------------------------------------------ kernels: inputs
def rand_shape(rng, k32):
    def n():
        r = rng.random()
        return 0 if r < 0.12 else 1 if r < 0.25 else rng.randint(2, 7)
    x = (0 if rng.random() < 0.12 else rng.randint(1, 3)) if k32 else None
    return x, n(), n()


def dyadic(rng):
    return rng.randint(-1023, 1023) / 16.0          # |k| < 2^10, 4 fractional bits: sums of 3 squares fit 24 bits


def kernel_inputs(ctx):
    """(name, dtype 'f'|'d', exact?, arr1 (nested list), arr2) ; shapes incl. 0 everywhere."""
    rng = ctx.rng
    np = np_()
    out = []
    reps = 2 if not ctx.thorough else 12
    for name in NAMES:
        k32 = name.startswith("cdist32")
        for dt in ("f", "d"):
            for exact in (True, False):
                for _ in range(reps if exact else max(1, reps // 2)):
                    x, l1, l2 = rand_shape(rng, k32)
                    if exact:
                        gen = lambda: dyadic(rng)
                    else:
                        typ = np.float32 if (dt == "f" or name[7] == "f") else np.float64
                        gen = lambda: float(typ(rng.uniform(-20, 20)))
                    a = [[gen() for _ in range(3)] for _ in range(l1)] if not k32 else \
                        [[[gen() for _ in range(3)] for _ in range(l1)] for _ in range(x)]
                    b = [[gen() for _ in range(3)] for _ in range(l2)]
                    out.append(dict(name=name, dt=dt, exact=exact, shape1=([x, l1, 3] if k32 else [l1, 3]), a=a, b=b))
    # corner shapes for every generic name
    for name in ("cdist22_eu2", "cdist22_eu", "cdist32_eu2", "cdist32_eu"):
        k32 = name.startswith("cdist32")
        for (x, l1, l2) in [(0, 0, 0), (0, 3, 2), (2, 0, 3), (2, 3, 0), (1, 1, 1)]:
            a = [[dyadic(rng) for _ in range(3)] for _ in range(l1)]
            a = [list(map(list, a)) for _ in range(x)] if k32 else a
            b = [[dyadic(rng) for _ in range(3)] for _ in range(l2)]
            for dt in ("f", "d"):
                out.append(dict(name=name, dt=dt, exact=True, shape1=([x, l1, 3] if k32 else [l1, 3]), a=a, b=b))
    return out


def np_arrays(inp):
    np = np_()
    typ = np.float32 if inp["dt"] == "f" else np.float64
    return np.array(inp["a"], dtype=typ).reshape(inp["shape1"]), np.array(inp["b"], dtype=typ).reshape((len(inp["b"]), 3))


def reference(inp):
    """independent float64 numpy evaluation"""
    np = np_()
    a, b = np_arrays(inp)
    a, b = a.astype(np.float64), b.astype(np.float64)
    d = ((a[..., :, None, :] - b[None, :, :]) ** 2).sum(-1)
    return d if inp["name"].endswith("eu2") else np.sqrt(d)


def layout(arr, how, rng):
    """same values, different memory layout / dtype"""
    np = np_()
    if how == "C":
        return np.ascontiguousarray(arr)
    if how == "strided":
        big = np.zeros(tuple(2 * s for s in arr.shape), dtype=arr.dtype) + 7
        sl = tuple(slice(rng.randint(0, 1), None, 2) for _ in arr.shape)
        big[sl] = arr
        return big[sl]
    if how == "transposed":
        base = np.ascontiguousarray(np.transpose(arr))
        return np.transpose(base)
    if how == "fortran":
        return np.asfortranarray(arr)
    if how == "reversed":
        return np.ascontiguousarray(arr[::-1])[::-1]
    raise ValueError(how)


# ------------------------------------------------------------------ kernels: the two implementations
def build_shim(ctx):
    """g++ build of $MOLLI_REPO/molli_xt/distance.cpp against the shim, into the per-run scratch dir."""
    exe = os.path.join(ctx.sub("shim"), "xt_drv")
    cmd = ["g++", "-O2", "-std=c++17", "-I", SHIM, "-I", os.path.join(vlib.REPO, "molli_xt"),
           os.path.join(SHIM, "drv.cpp"), "-o", exe]
    rc, out = vlib.sh(cmd, 180)
    return (exe if rc == 0 else None), out


def hexf(x):
    return float(x).hex()


def run_shim(exe, inputs):
    """returns per input ('ok', shape, flat values) | ('err', reason)"""
    lines = [str(len(inputs))]
    for inp in inputs:
        flat_a = [v for row in (inp["a"] if len(inp["shape1"]) == 2 else [r for blk in inp["a"] for r in blk]) for v in row]
        flat_b = [v for row in inp["b"] for v in row]
        lines.append(" ".join([inp["name"], inp["dt"], str(len(inp["shape1"]))] + [str(s) for s in inp["shape1"]]
                              + [str(len(inp["b"])), "3"] + [hexf(v) for v in flat_a + flat_b]))
    rc, out = vlib.sh([exe], 300, inp="\n".join(lines) + "\n")
    res = []
    for ln in out.splitlines():
        t = ln.split()
        if not t:
            continue
        if t[0] == "ok":
            nd = int(t[1])
            shape = [int(s) for s in t[2:2 + nd]]
            res.append(("ok", shape, [float.fromhex(v) for v in t[2 + nd:]]))
        else:
            res.append(("err", " ".join(t[1:])))
    if rc != 0 or len(res) != len(inputs):
        return None, f"driver exit {rc}, {len(res)} of {len(inputs)} results; output tail: {out[-400:]}"
    return res, ""


def run_ext(inp, how, rng):
    np = np_()
    import molli_xt
    a, b = np_arrays(inp)
    if how == "int":
        a, b = a.astype(np.int64), b.astype(np.int64)
    elif how == "mixed":
        a, b = a.astype(np.float64), b.astype(np.float32)
    else:
        a, b = layout(a, how, rng), layout(b, how, rng)
    try:
        r = getattr(molli_xt, inp["name"])(a, b)
    except Exception as e:  # noqa
        return ("err", f"{type(e).__name__}: {e}"[:200])
    r = np.asarray(r)
    return ("ok", list(r.shape), [float(v) for v in r.ravel()], str(r.dtype), bool(a.flags.c_contiguous and b.flags.c_contiguous))


def kernel_term(inp, obs, tol):
    k32 = inp["name"].startswith("cdist32")
    sq = inp["name"].endswith("eu2")
    blocks = inp["a"] if k32 else [inp["a"]]
    l1 = inp["shape1"][-2]
    return (f"(mkCase {'K32' if k32 else 'K22'} {cq_bool(sq)} {q(tol)} {cq_nat(l1)} {cq_list(rowsq(b) for b in blocks)} "
            f"{rowsq(inp['b'])} {natl(obs[1])} {cq_list(q(v) for v in obs[2])})")


def judge_kernel(inp, obs, eff_dt):
    """oracle: shape and values against the float64 numpy reference. eff_dt: element type the INPUT had ('f'/'d')."""
    np = np_()
    ref = reference(inp)
    if obs[0] != "ok":
        return "raises", f"{inp['name']} raised {obs[1]} on shapes {inp['shape1']} x {[len(inp['b']), 3]}"
    if list(obs[1]) != list(ref.shape):
        return "wrong-shape", f"{inp['name']} returned shape {obs[1]}, expected {list(ref.shape)}"
    got = np.array(obs[2], dtype=np.float64).reshape(ref.shape)
    if not np.isfinite(got).all():
        return "wrong-value", f"{inp['name']} returned a non-finite value"
    rtol = 0.0 if inp["exact"] and inp["name"].endswith("eu2") else (4e-6 if eff_dt == "f" else 1e-12)
    bad = np.abs(got - ref) > rtol * np.abs(ref)
    if bad.any():
        ix = tuple(int(i) for i in np.argwhere(bad)[0])
        return "wrong-value", (f"{inp['name']}({'float32' if eff_dt == 'f' else 'float64'}) entry {ix} = {got[ix]!r}, "
                               f"numpy float64 evaluation gives {ref[ix]!r} (rows {inp['shape1']} x {[len(inp['b']), 3]})")
    return None


def tol_of(inp, computed_in):
    if inp["exact"]:
        return Fr(0) if inp["name"].endswith("eu2") else (TOL32 if computed_in == "f" else TOL64)
    return TOL32 if computed_in == "f" else TOL64


def kernels(ctx, rep):
    """returns (terms, owners(list of replay dicts), oracle-violating owner ids, known signatures reproduced)"""
    np = np_()
    rng = ctx.rng
    inputs = kernel_inputs(ctx)
    terms, owners, flagged, known = [], [], set(), set()
    # ---- shim build of the current source
    exe, log = build_shim(ctx)
    rep.oblig("shim-build:distance.cpp", exe is not None)
    if exe is None:
        vlib.broken_obligation(rep, "shim-build", "molli_xt/distance.cpp no longer compiles against tools/pybind11_shim "
                               "(the check cannot follow the C++ source): " + log[-1200:], False)
    else:
        sel = [i for i in inputs if (i["name"][7] not in "fd") or i["name"][7] == i["dt"]]
        res, why = run_shim(exe, sel)
        if res is None:
            vlib.broken_obligation(rep, "shim-run", why, False)
        else:
            for inp, obs in zip(sel, res):
                rd = dict(kind="kernel", via="shim", name=inp["name"], dt=inp["dt"], exact=inp["exact"], shape1=inp["shape1"], a=inp["a"], b=inp["b"])
                rep.count("kernel:shim:" + ("exact" if inp["exact"] else "generic"))
                v = judge_kernel(inp, obs, inp["dt"])
                if v:
                    flagged.add(len(owners))
                    rep.violate(f"C19:kernel:source:{inp['name']}:{v[0]}", "built from molli_xt/distance.cpp: " + v[1], rd)
                if obs[0] == "ok":
                    rep.case(key=("ks", inp["name"], inp["dt"], json.dumps(inp["shape1"]), len(inp["b"]), inp["exact"], json.dumps(inp["a"])[:200]),
                             sample=None)
                    terms.append(kernel_term(inp, obs, tol_of(inp, inp["dt"])))
                    owners.append(rd)
                else:
                    rep.case(key=None)
    # ---- shipped extension through Python
    for n, inp in enumerate(inputs):
        hows = ["C"] + ([rng.choice(LAYOUTS[1:5]) if not inp["exact"] else rng.choice(LAYOUTS[1:])] if not ctx.thorough else LAYOUTS[1:])
        for how in hows:
            if how in ("int", "mixed") and not inp["exact"]:
                continue
            use = inp
            if how == "int":
                use = dict(inp, a=np.trunc(np.array(inp["a"], dtype=float)).reshape(inp["shape1"]).tolist(),
                           b=np.trunc(np.array(inp["b"], dtype=float)).reshape((len(inp["b"]), 3)).tolist())
            obs = run_ext(use, how, rng)
            rd = dict(kind="kernel", via="ext", layout=how, name=use["name"], dt=use["dt"], exact=use["exact"], shape1=use["shape1"], a=use["a"], b=use["b"])
            rep.count(f"kernel:ext:{how}:" + ("exact" if use["exact"] else "generic"))
            v = judge_kernel(use, obs, use["dt"] if (use["name"][7] != "f" and how not in ("int", "mixed")) else "f")
            if v:
                sig = f"C19:kernel:ext:{use['name']}:{v[0]}"
                if (v[0] == "wrong-value" and use["dt"] == "d" and use["name"][7] == "_" and how not in ("int", "mixed")
                        and obs[0] == "ok" and obs[3] == "float32" and not obs[4]):
                    sig = KNOWN_F32
                    known.add(sig)
                else:
                    flagged.add(len(owners))
                rep.violate(sig, f"layout={how}: " + v[1] + (f"; result dtype {obs[3]}" if obs[0] == "ok" else ""), rd)
                if sig == KNOWN_F32:
                    rep.case(key=None)          # recorded region: judged by the oracle only, not compared with the model
                    rep.count("kernel:ext:known-finding-region")
                    continue
            if obs[0] == "ok":
                rep.case(key=("ke", use["name"], use["dt"], how, json.dumps(use["shape1"]), len(use["b"]), use["exact"], json.dumps(use["a"])[:200]),
                         sample=(dict(rd, a="...", b="...") if n % 150 == 0 else None))
                terms.append(kernel_term(use, obs, tol_of(use, "f" if obs[3] == "float32" else "d")))
                owners.append(rd)
            else:
                rep.case(key=None)
    return terms, owners, flagged, known


# ------------------------------------------------------------------ rectangular_grid
ELEMS = ["H", "C", "N", "O", "F", "S", "Cl", "Br", "P", "Si"]
SURF_BAND = Fr(1, 500)          # |d^2 - r^2| <= 2e-3: float32 rounding band around a sphere surface (coordinates <= ~16)
NEAR_BAND = Fr(1, 10 ** 9)      # relative band of the KD-tree cut-off / tie comparisons (float64 rounding)
VAL_TOL = Fr(1, 10 ** 9)        # aso / aeif values


def grid_inputs(ctx):
    rng = ctx.rng
    out = []
    spac = [0.25, 0.5, 0.75, 1.0, 1.5, 0.375, 2.0]
    pads = [0.0, 0.25, 0.5, 1.0, 0.125, 2.0]
    n = 50 if not ctx.thorough else 600
    for i in range(n):                                   # dyadic: every float operation in the code is exact
        s = rng.choice(spac)
        pad = rng.choice(pads)
        r1 = [rng.randint(-48, 48) / 8.0 for _ in range(3)]
        r2 = []
        for k in range(3):
            u = rng.random()
            if u < 0.15:
                r2.append(r1[k])                                    # flat axis
            elif u < 0.55:
                r2.append(r1[k] + rng.randint(1, 6) * s)            # exact multiple of the spacing
            else:
                r2.append(r1[k] + rng.randint(0, 40) / 8.0)
        while math.prod(int((r2[k] - r1[k] + 2 * pad) // s) + 1 for k in range(3)) > 1200:
            s *= 2                                                  # keep the literal lists small (still dyadic)
        out.append(dict(kind="grid", stream="dyadic", r1=r1, r2=r2, pad=pad, s=s, dtype=rng.choice(["float32", "float64"])))
    for i in range(n // 2):                              # generic decimals (not dyadic): float64 and float32
        s = rng.choice([0.3, 0.7, 1.1, 0.45, 0.9])
        pad = rng.choice([0.0, 0.3, 1.3, 0.05])
        r1 = [round(rng.uniform(-5, 5), 3) for _ in range(3)]
        r2 = [round(r1[k] + rng.uniform(0, 4), 3) for k in range(3)]
        while math.prod(int((r2[k] - r1[k] + 2 * pad) // s) + 1 for k in range(3)) > 1200:
            s = round(s * 1.7, 3)
        out.append(dict(kind="grid", stream="generic", r1=r1, r2=r2, pad=pad, s=s, dtype=("float64" if i % 3 else "float32")))
    # empty and inverted boxes: 0 samples on an axis -> empty grid; negative -> numpy raises
    for r1, r2, pad, s in [([0, 0, 0], [-0.5, 1, 1], 0.0, 1.0), ([0, 0, 0], [-1, 1, 1], 0.0, 1.0), ([0, 0, 0], [-3, 1, 1], 0.0, 1.0),
                           ([1, 1, 1], [-3, 2, 2], 0.0, 1.0), ([0, 0, 0], [-3, 1, 1], 1.5, 0.5), ([0, 0, 0], [0, 0, 0], 0.0, 1.0),
                           ([0, 0, 0], [0, 0, -2.25], 0.0, 0.5)]:
        out.append(dict(kind="grid", stream="dyadic", r1=[float(x) for x in r1], r2=[float(x) for x in r2], pad=pad, s=s, dtype="float32"))
    # large boxes (2 10^4 .. 1.3 10^5 points): judged in full by the oracle, inside Coq at sampled positions (CGridAt)
    for i in range(4 if not ctx.thorough else 24):
        s = rng.choice([0.25, 0.375, 0.5])
        r1 = [rng.randint(-48, 0) / 8.0 for _ in range(3)]
        ext = [rng.randint(26, 50), rng.randint(20, 50), rng.randint(20, 44)]
        rng.shuffle(ext)
        r2 = [r1[k] + ext[k] * s + rng.choice([0.0, 0.125, 0.25]) for k in range(3)]
        out.append(dict(kind="grid", stream="dyadic", big=True, r1=r1, r2=r2, pad=rng.choice([0.0, 0.25, 0.5, 1.0]), s=s,
                        dtype=rng.choice(["float32", "float64"]), k1=rng.choice(CORNER_KINDS[:6]), k2=rng.choice(CORNER_KINDS[:6])))
    return out


# corners as the caller may hold them.  "view": a row of a 2-D array (what coords.min(axis=0) of a slice gives), "strided":
# every other element of a longer array, "readonly": flags.writeable = False, "i64": integer corners
CORNER_KINDS = ["list", "tuple", "f32", "f64", "view32", "view64", "strided64", "strided32", "readonly32", "readonly64", "i64"]


def make_corner(kind, vals):
    np = np_()
    if kind == "list":
        return [float(v) for v in vals]
    if kind == "tuple":
        return tuple(float(v) for v in vals)
    if kind == "i64":
        return np.array([int(v) for v in vals], dtype=np.int64)
    typ = np.float32 if kind.endswith("32") else np.float64
    if kind.startswith("view"):
        return np.array([[9.0, 9.0, 9.0], list(vals)], dtype=typ)[1]
    if kind.startswith("strided"):
        base = np.full(6, 9.0, dtype=typ)
        base[::2] = vals
        return base[::2]
    a = np.array(vals, dtype=typ)
    if kind.startswith("readonly"):
        a.flags.writeable = False
    return a


def gridseq_inputs(ctx):
    """the SAME corner objects passed to several consecutive calls (a scan over paddings / spacings / dtypes), every kind of
    corner argument, and one object passed as both corners (a box grown around a point)"""
    rng = ctx.rng
    out = []
    pairs = [(k, rng.choice(CORNER_KINDS)) for k in CORNER_KINDS] + [(rng.choice(CORNER_KINDS), k) for k in CORNER_KINDS[2:]]
    alias = [k for k in CORNER_KINDS if k not in ("list", "tuple")] + ["list", "f32", "f64"]
    if ctx.thorough:
        pairs = pairs * 6
        alias = alias * 4
    for k1, k2, same in [(a, b, False) for a, b in pairs] + [(a, a, True) for a in alias]:
        integer = "i64" in (k1, k2)
        r1 = [float(rng.randint(-5, 5)) if integer else rng.randint(-40, 40) / 8.0 for _ in range(3)]
        r2 = list(r1) if same else [r1[k] + (float(rng.randint(0, 4)) if integer else rng.randint(0, 24) / 8.0) for k in range(3)]
        calls = []
        for c in range(3):
            pad = rng.choice([0.25, 0.5, 1.0, 1.25, 0.75]) if (c == 0 or same) else rng.choice([0.0, 0.25, 0.5, 1.0, 1.25])
            sp = rng.choice([0.25, 0.5, 0.75, 1.0, 0.375])
            while math.prod(int((r2[k] - r1[k] + 2 * pad) // sp) + 1 for k in range(3)) > 160:
                sp *= 2
            native = {"32": "float32", "64": "float64"}.get(k1[-2:])
            calls.append(dict(pad=pad, s=sp, dtype=(native if native and c == 0 else rng.choice(["float32", "float64"]))))
        out.append(dict(kind="gridseq", stream="dyadic", r1=r1, r2=r2, k1=k1, k2=k2, same=same, calls=calls))
    return out


def arg_state(objs):
    """[(name, object, frozen copy)] of the array arguments of a call"""
    np = np_()
    return [(n, o, np.array(o, copy=True)) for n, o in objs if isinstance(o, np.ndarray)]


def args_changed(state):
    """names of the arguments that are not bit-for-bit what they were"""
    return [n for n, o, c in state if o.shape != c.shape or o.dtype != c.dtype or o.tobytes() != c.tobytes()]


def run_gridseq(sd):
    """one (term, [violations], info) per call; all calls receive the same corner objects"""
    a1 = make_corner(sd["k1"], sd["r1"])
    a2 = a1 if sd["same"] else make_corner(sd["k2"], sd["r2"])
    np = np_()
    frozen = arg_state([("r1", a1), ("r2", a2)])
    plain = [(n, o, type(o), list(o)) for n, o in (("r1", a1), ("r2", a2)) if not isinstance(o, np.ndarray)]
    out = []
    mutated = False
    for i, c in enumerate(sd["calls"]):
        rd = dict(kind="grid", stream="dyadic", r1=sd["r1"], r2=sd["r2"], pad=c["pad"], s=c["s"], dtype=c["dtype"])
        term, viol, info = run_grid(rd, (a1, a2))
        how = (f"corners passed as {sd['k1']}/{sd['k2']}" + (" (one object for both corners)" if sd["same"] else "")
               + (f", call {i + 1} with the same corner objects" if i else ""))
        viols = [(viol[0] + (":same-object-as-both-corners" if sd["same"] else ":corner-objects-reused" if i else ":corner-kind"), how + ": " + viol[1])] if viol else []
        bad = [] if mutated else args_changed(frozen) + [n for n, o, t, c0 in plain if type(o) is not t or list(o) != c0]
        if bad:
            mutated = True             # reported once; the later calls show what it does to the next grid
            viols.append(("argument-mutated:" + "+".join(bad), f"{how}: rectangular_grid(padding={c['pad']}, spacing={c['s']}, dtype={c['dtype']}) changed "
                          f"the caller's corner argument(s) {bad}: passed {sd['r1']} / {sd['r2']}, now {[float(v) for v in a1]} / {[float(v) for v in a2]}"))
        out.append((term, viols, info))
    return out


def floor_div(a: Fr, b: Fr) -> int:
    return math.floor(a / b)


def run_grid(rd, args=None):
    """(term|None, violation|None, info).  args = the corner objects to pass (default: the lists of rd, or rd['k1'] / rd['k2'] kinds)"""
    np = np_()
    if args is None:
        args = (make_corner(rd["k1"], rd["r1"]), make_corner(rd["k2"], rd["r2"])) if "k1" in rd else (rd["r1"], rd["r2"])
    from molli.descriptor import gridbased as gb
    typ = np.float32 if rd["dtype"] == "float32" else np.float64
    # the values the code actually computes with: inputs converted to dtype first (python floats are weak scalars)
    r1 = [Fr(float(typ(x))) for x in rd["r1"]]
    r2 = [Fr(float(typ(x))) for x in rd["r2"]]
    pad, s = Fr(float(typ(rd["pad"]))), Fr(float(typ(rd["s"])))
    exact = rd["stream"] == "dyadic"
    tol = Fr(0) if exact else (Fr(1, 10 ** 9) if rd["dtype"] == "float64" else Fr(1, 10 ** 5))
    margin = Fr(0) if exact else (Fr(1, 10 ** 9) if rd["dtype"] == "float64" else Fr(1, 10 ** 4))
    l = [r1[k] - pad for k in range(3)]
    r = [r2[k] + pad for k in range(3)]
    ns = [floor_div(r[k] - l[k], s) + 1 for k in range(3)]
    fr = [(r[k] - l[k]) / s - (ns[k] - 1) for k in range(3)]
    try:
        g = gb.rectangular_grid(args[0], args[1], padding=rd["pad"], spacing=rd["s"], dtype=rd["dtype"])
    except ValueError as e:
        g = None
        err = str(e)
    except Exception as e:  # noqa
        return None, ("raises-" + type(e).__name__, f"rectangular_grid({rd['r1']}, {rd['r2']}, {rd['pad']}, {rd['s']}, {rd['dtype']}) raised {e!r}"), {}
    if not exact and any(f < margin or f > 1 - margin for f in fr):
        return None, None, {"skipped": "point count within rounding of a floor boundary"}
    call = f"rectangular_grid({rd['r1']}, {rd['r2']}, padding={rd['pad']}, spacing={rd['s']}, dtype={rd['dtype']})"
    info = {"n": ns}
    # ---- oracle (independent of the model): the property's clauses on the returned array
    viol = None
    if any(n < 0 for n in ns):
        if g is not None:
            viol = ("negative-extent-accepted", f"{call}: an axis has a negative sample count {ns} but a grid of shape {g.shape} was returned")
        return f"(CGrid {vq(r1)} {vq(r2)} {q(pad)} {q(s)} {q(tol)} None)", viol, info
    if g is None:
        return None, ("raises-ValueError", f"{call} raised ValueError({err}) for a non-empty padded box"), info
    g64 = np.asarray(g, dtype=np.float64)
    ftol = float(tol) if tol else 0.0
    if g64.shape != (ns[0] * ns[1] * ns[2], 3):
        viol = ("wrong-count", f"{call} returned {g64.shape[0]} points, expected nx*ny*nz = {ns[0]}*{ns[1]}*{ns[2]}")
    elif g64.shape[0]:
        axes = [np.unique(g64[:, k]) for k in range(3)]
        if [len(a) for a in axes] != ns:
            viol = ("wrong-axes", f"{call}: distinct coordinates per axis {[len(a) for a in axes]}, expected {ns}")
        elif (len({tuple(p) for p in g64.tolist()}) if g64.shape[0] <= 5000 else np.unique(g64, axis=0).shape[0]) != g64.shape[0]:
            viol = ("duplicate-points", f"{call}: the grid contains duplicate points")
        else:
            for k in range(3):
                ax = axes[k]
                lo, hi = float(l[k]), float(r[k])
                if len(ax) > 1 and np.abs(np.diff(ax) - float(s)).max() > max(ftol, 0) + 0:
                    viol = ("wrong-spacing", f"{call}: axis {k} steps {np.diff(ax)[:4]} differ from the spacing {float(s)}")
                elif abs((ax[0] - lo) - (hi - ax[-1])) > 2 * ftol:
                    viol = ("not-centred", f"{call}: axis {k} leaves {ax[0] - lo} below and {hi - ax[-1]} above")
                elif ax[0] < lo - ftol or ax[-1] > hi + ftol:
                    viol = ("not-contained", f"{call}: axis {k} spans [{ax[0]}, {ax[-1]}] outside the padded box [{lo}, {hi}]")
                if viol:
                    break
    # the property speaks about the grid as a set: the observed points are put into the model's raveling order
    # (y slowest, z fastest) before the comparison, so a different but complete enumeration order does not alarm
    if g64.shape[0] > 1500:
        # too large for a literal: the count and the points at sampled positions of the (re-ordered) grid -- C19_grid_at
        order = np.lexsort((g64[:, 2], g64[:, 0], g64[:, 1]))
        G = int(g64.shape[0])
        info["order_kept"] = bool((order == np.arange(G)).all())
        import random
        r = random.Random(G * 31 + ns[0])
        S = {0, 1, G - 2, G - 1}
        for m in (ns[2], ns[0] * ns[2]):
            for t in r.sample(range(1, max(2, G // m)), min(6, max(1, G // m - 1))):
                S |= {t * m - 1, t * m}
        for e in range(10, 18):
            S |= {(1 << e) - 1, 1 << e}
        S |= set(r.sample(range(G), 10))
        S = sorted(i for i in S if 0 <= i < G)
        body = "; ".join(f"({i}%Z, {vq([Fr(v) for v in g64[order[i]].tolist()])})" for i in S)
        info["sampled"] = len(S)
        return f"(CGridAt {vq(r1)} {vq(r2)} {q(pad)} {q(s)} {q(tol)} {G}%Z [{body}])", viol, info
    pts = sorted(g64.tolist(), key=lambda p: (p[1], p[0], p[2]))
    info["order_kept"] = pts == g64.tolist()
    term = f"(CGrid {vq(r1)} {vq(r2)} {q(pad)} {q(s)} {q(tol)} (Some {ptsq(pts)}))"
    return term, viol, info


# ------------------------------------------------------------------ descriptors: inputs
def one_desc(rng, kind, generic, cap=400, shape=None, big=None):
    """one descriptor input (a replay dict).  shape=(C, N) fixes the ensemble size; big={G, mode, seed}: a large grid (make_grid)."""
    C, N = shape or (rng.randint(1, 4), rng.randint(1, 7))
    if generic:
        f32 = np_().float32          # arbitrary (not lattice-aligned) coordinates, representable in float32
        coords = [[[float(f32(rng.uniform(-3, 3))) for _ in range(3)] for _ in range(N)] for _ in range(C)]
    else:
        coords = [[[rng.randint(-48, 48) / 16.0 for _ in range(3)] for _ in range(N)] for _ in range(C)]
    flat = [p for c in coords for p in c]
    lo = [math.floor(min(p[k] for p in flat) * 4) / 4 for k in range(3)]
    hi = [math.ceil(max(p[k] for p in flat) * 4) / 4 for k in range(3)]
    pad = rng.choice([0.5, 1.0, 1.5])

    def npts(sp):
        return math.prod(int((hi[k] - lo[k] + 2 * pad) // sp) + 1 for k in range(3))
    fits = [sp for sp in (0.5, 0.75, 1.0, 1.25, 1.5, 2.0, 3.0) if npts(sp) <= cap] or [4.0]
    grid = dict(r1=lo, r2=hi, pad=pad, s=rng.choice(fits[:3]), dtype=("float32" if rng.random() < 0.8 else "float64"))
    rd = dict(kind=kind, stream=("generic" if generic else "dyadic"), coords=coords, elements=[rng.choice(ELEMS) for _ in range(N)],
              weights=[rng.randint(1, 16) / 8.0 for _ in range(C)], charges=[[rng.randint(-64, 64) / 64.0 for _ in range(N)] for _ in range(C)],
              grid=grid, weighted=(rng.random() < 0.5))
    if kind in ("nearest", "prune"):
        rd["cut"] = rng.choice([0.5, 1.0, 1.5, 2.0, 2.5, 3.0])
        rd["eps"] = rng.choice([0.0, 0.25, 0.5, 1.0])
        rd["target"] = rng.choice(["ens", "ens", "geom", "struct", "mol", "conf"])
    if kind == "aif":
        rd["radii"] = [rng.choice([0.5, 1.0, 1.25, 1.5, 2.0, 1.7, 1.1]) for _ in range(N)]
        rd["values"] = [[rng.randint(-32, 32) / 8.0 for _ in range(N)] for _ in range(C)]
        rd["rk"] = rng.choice(["asis", "asis", "f32", "readonly"])
        rd["vk"] = rng.choice(["asis", "asis", "f32", "fortran", "strided", "readonly"])
    if kind in ("aif", "aeif"):
        rd["pass_idx"] = rng.random() < 0.5
        rd["ik"] = rng.choice(["asis", "asis", "i32", "fortran", "readonly"])
    # how the caller holds the grid, and how many times the call is made with the same argument objects
    rd["gk"] = rng.choice(GRID_KINDS)
    rd["reps"] = rng.choice([1, 2, 2])
    if big:
        big = dict(big)
        if big["mode"] != "random":
            fit = [sp for sp in (3.0, 2.0, 1.5, 1.0, 0.75, 0.5, 0.375, 0.25, 0.1875, 0.125) if npts(sp) >= big["G"]]
            if fit and npts(fit[0]) <= 2 * big["G"] + 4000:
                big["s"] = fit[0]
            else:
                big["mode"] = "random"
        rd["big"] = big
        rd["reps"] = rng.choice([1, 1, 2])
    return rd


BIG_SHAPES = [(1, 1), (1, 40), (2, 33), (3, 5), (7, 17), (5, 12), (16, 8), (40, 3), (3, 70), (12, 11), (70, 2), (1, 130)]
BIG_SIZES = [1000, 1024, 2049, 4096, 5000, 8191, 8192, 12289, 16384, 20011, 32768, 32769, 50021, 65536, 65537, 70001]


def big_inputs(ctx):
    """SIZE: ensembles x grids large enough to cross any internal blocking threshold (distance arrays of 2^16 .. 2^24 elements,
    up to 70 conformers / 70 atoms, 10^3 .. 1.5 10^5 grid points), grid sizes that are and are not multiples of powers of two"""
    rng = ctx.rng
    out = []
    per = 4 if not ctx.thorough else 30
    for kind in DESC_KINDS:
        for i in range(per):
            shape, G = rng.choice(BIG_SHAPES), rng.choice(BIG_SIZES)
            if i % 4 == 0:                         # the bundled pentane ensemble's size, an odd grid size, > 2^20 elements
                shape, G = (7, 17), rng.choice([12289, 20011, 32769, 50021, 70001])
            elif i % 4 == 1:                       # a small ensemble just across 2^16 elements
                shape, G = rng.choice([(3, 5), (2, 33), (5, 12), (1, 40)]), rng.choice([5000, 8191, 2049, 12289])
            elif i % 4 == 2:                       # many conformers (not a multiple of 16 / 32 / 64)
                shape, G = rng.choice([(40, 3), (70, 2), (33, 4), (65, 2), (130, 1)]), rng.choice([1000, 2049, 4096, 5000])
            elif i % 8 == 3:                       # many atoms
                shape, G = rng.choice([(3, 70), (1, 130), (2, 65), (1, 257)]), rng.choice([1000, 2049, 4096, 5000])
            # 'lattice' leaves the tail of the array on the empty far face of the box: the two guaranteed threshold-crossing cases avoid it
            mode = rng.choice(["random", "random", "shuffled", "lattice"] if i % 4 > 1 else ["random", "shuffled"])
            out.append(one_desc(rng, kind, False, shape=shape, big=dict(G=G, mode=mode, seed=rng.randint(0, 2 ** 31 - 1))))
    for kind in (("aso", "aeif") if not ctx.thorough else DESC_KINDS):      # > 2^24 distance-array elements
        out.append(one_desc(rng, kind, False, shape=(7, 17), big=dict(G=rng.choice([150001, 141312, 163840]), mode="random", seed=rng.randint(0, 2 ** 31 - 1))))
    return out


DESC_KINDS = ("nearest", "prune", "aso", "aeif", "aif")


def desc_inputs(ctx):
    rng = ctx.rng
    out = []
    n = 10 if not ctx.thorough else 120
    for i in range(n):
        for kind in DESC_KINDS:
            out.append(one_desc(rng, kind, generic=(i % 3 == 2)))
    return out


# ------------------------------------------------------------------ descriptors on objects with a HISTORY
# call -> edit the same object in place -> call again (translate / scale / quarter-turn rotation / coordinate, charge and
# weight assignment), and streams of short-lived same-sized objects (CPython reuses ids): every call must agree with the
# model evaluated on the object's CURRENT state.  All edits keep the coordinates dyadic with few bits.
ROT90 = [[[1, 0, 0], [0, 0, -1], [0, 1, 0]], [[0, 0, 1], [0, 1, 0], [-1, 0, 0]], [[0, -1, 0], [1, 0, 0], [0, 0, 1]]]


def seq_inputs(ctx):
    rng = ctx.rng
    out = []
    reps = 2 if not ctx.thorough else 16
    for kind in DESC_KINDS:
        more = 1 if kind in ("prune", "nearest") and not ctx.thorough else 0      # the KD-tree users: one more of each (a stale
        n_edit = reps + more                                                       # tree shows only when the atoms moved far enough)
        for r in range(n_edit + max(1, reps // 2) + more):
            base = one_desc(rng, kind, generic=False, cap=220)
            C, N = len(base["coords"]), len(base["coords"][0])
            steps = []
            if r < n_edit:                                 # in-place edits of one object
                for _ in range(3):
                    op = rng.choice(["translate", "translate", "scale", "rot90", "assign", "assign", "charges", "weights"])
                    if op == "translate":
                        steps.append(["translate", [rng.randint(-8, 8) / 4.0 for _ in range(3)]])
                    elif op == "scale":
                        steps.append(["scale", rng.choice([0.5, 2.0, 0.75])])
                    elif op == "rot90":
                        steps.append(["rot90", rng.randint(0, 2)])
                    elif op == "assign":
                        steps.append(["assign", one_desc(rng, kind, False, shape=(C, N))["coords"]])
                    elif op == "charges":
                        steps.append(["charges", [[rng.randint(-64, 64) / 64.0 for _ in range(N)] for _ in range(C)]])
                    else:
                        steps.append(["weights", [rng.randint(1, 16) / 8.0 for _ in range(C)]])
            else:                                          # fresh same-sized objects, each dropped before the next is built
                for _ in range(3):
                    f = one_desc(rng, kind, False, shape=(C, N))
                    steps.append(["fresh", {k: f[k] for k in ("coords", "weights", "charges")}])
            out.append(dict(kind="seq", stream="dyadic", desc=kind, base=base, steps=steps))
    return out


_STAT = {}


def apply_step(ml, rd, objs, step):
    """edit the live object(s) in place (or replace them by a fresh object of the same size); returns the new objs"""
    np = np_()
    import gc
    ens, tgt = objs
    op, arg = step
    plain = rd.get("target", "ens") in ("geom", "struct", "mol")
    obj = tgt if plain else ens
    if op == "translate":
        obj.translate(np.array(arg, dtype=float))
    elif op == "scale":
        obj.scale(arg)
    elif op == "rot90":
        M = np.array(ROT90[arg], dtype=float)
        (obj.transform(M) if plain else obj.rotate(M))
    elif op == "assign":
        new = np.array(arg, dtype=float)
        obj.coords[:] = (new[0] if plain else new)
    elif op == "charges":
        ens.atomic_charges[:] = np.array(arg, dtype=float)
    elif op == "weights":
        ens.weights[:] = np.array(arg, dtype=float)
    elif op == "fresh":
        # A stream of short-lived same-sized objects: K warm-up objects are built, used once and dropped together with the
        # current one; then fresh objects are built until one lands on an id that a dead object had (CPython reuses ids).
        import random
        r = random.Random(json.dumps(arg, sort_keys=True))
        C, N = len(rd["coords"]), len(rd["coords"][0])
        old_ids, warm = {id(tgt)}, []
        for _ in range(24):
            st = dict(rd, coords=[[[r.randint(-48, 48) / 16.0 for _ in range(3)] for _ in range(N)] for _ in range(C)])
            o = fresh_objs(ml, st, ens if plain else None)
            run_desc(ml, st, o)
            old_ids.add(id(o[1]))
            warm.append(o)
        keep = ens if plain else None
        del warm, o, tgt, obj, objs
        if not plain:
            del ens
        gc.collect()
        fresh = dict(rd, **arg)
        hold = []
        for _ in range(400):
            cand = fresh_objs(ml, fresh, keep)
            if id(cand[1]) in old_ids:
                break
            hold.append(cand)
        _STAT["reused"] = id(cand[1]) in old_ids
        del hold
        return cand
    return (ens, tgt)


def fresh_objs(ml, rd, keep_ens=None):
    """(ensemble, target) built from rd; a plain-geometry target does not need a new ensemble"""
    np = np_()
    t = rd.get("target", "ens")
    if t in ("geom", "struct", "mol") and keep_ens is not None:
        co = np.array(rd["coords"], dtype=np.float64)
        cls = {"geom": ml.CartesianGeometry, "struct": ml.Structure, "mol": ml.Molecule}[t]
        return (keep_ens, cls(n_atoms=co.shape[1], coords=co[0]))
    e = build(ml, rd)
    return (e, target_of(ml, rd, e)[0])


def state_of(rd, objs):
    """replay dict describing what the live object holds NOW"""
    np = np_()
    ens, tgt = objs
    co = np.array(ens.coords, dtype=float).copy()
    if rd.get("target", "ens") in ("geom", "struct", "mol"):
        co[0] = np.array(tgt.coords, dtype=float)
    return dict(rd, coords=co.tolist(), weights=np.array(ens.weights, dtype=float).tolist(),
                charges=np.array(ens.atomic_charges, dtype=float).tolist())


def run_seq(ml, sd):
    """list of (term|None, violation|None, info) -- one entry per call of the descriptor"""
    rd = dict(sd["base"])
    ens = build(ml, rd)
    objs = (ens, target_of(ml, rd, ens)[0])
    del ens
    out = [run_desc(ml, rd, objs)]
    hist = []
    for step in sd["steps"]:
        try:
            objs = apply_step(ml, rd, objs, step)
        except Exception as e:  # noqa
            out.append((None, None, {"skipped": f"edit {step[0]} raised {e!r} (not a descriptor matter)"}))
            break
        hist.append(step[0])
        rd = state_of(rd, objs)
        term, viol, info = run_desc(ml, rd, objs)
        if step[0] == "fresh":
            info = dict(info, id_reused=_STAT.get("reused", False))
        viol = [(v[0] + ":after-" + ("fresh-object" if step[0] == "fresh" else "in-place-edit"),
                 (f"after {' -> '.join(h for h in hist if h != 'fresh')} on the same object: " if step[0] != "fresh" else
                  "on a fresh object built after a stream of short-lived same-sized objects was dropped (id reuse): ") + v[1]) for v in vlist(viol)]
        out.append((term, viol, info))
    return out


def vlist(v):
    """violations of one call as a list: None | (sig, text) | [(sig, text), ...]"""
    return [] if not v else ([v] if isinstance(v, tuple) else list(v))


def build(ml, rd):
    np = np_()
    co = np.array(rd["coords"], dtype=np.float64)
    C, N = co.shape[0], co.shape[1]
    ens = ml.ConformerEnsemble(n_conformers=C, n_atoms=N, coords=co, weights=np.array(rd["weights"], dtype=float),
                               atomic_charges=np.array(rd["charges"], dtype=float))
    for a, e in zip(ens.atoms, rd["elements"]):
        a.element = e
    return ens


def target_of(ml, rd, ens):
    np = np_()
    t = rd.get("target", "ens")
    co = np.array(rd["coords"], dtype=np.float64)
    if t == "ens":
        return ens, co
    if t == "conf":
        k = len(co) - 1
        return ens[k], co[k:k + 1]
    cls = {"geom": ml.CartesianGeometry, "struct": ml.Structure, "mol": ml.Molecule}[t]
    return cls(n_atoms=co.shape[1], coords=co[0]), co[0:1]


def common_den(vals):
    d = 1
    for v in vals:
        d = max(d, v.denominator)          # floats are dyadic: every denominator is a power of two, max = lcm
    assert d & (d - 1) == 0
    return d


def ptsq(X):
    """list of points as (qpts den [(x, y, z); ...]) : one integer literal per coordinate"""
    F = [[Fr(v) for v in p] for p in X]
    den = common_den([v for p in F for v in p])
    body = "; ".join("(" + ", ".join(str(int(v * den)) for v in p) + ")" for p in F)
    return f"(qpts {den} [{body}]%Z)"


def cosel_of(rd):
    """coordinates of the object the call is made on, as a list of conformers"""
    np = np_()
    co = np.array(rd["coords"], dtype=np.float64)
    t = rd.get("target", "ens")
    return co if t == "ens" else (co[len(co) - 1:] if t == "conf" else co[0:1])


def ensq(E):
    return cq_list(ptsq(X) for X in E)


def zl(l):
    return "[" + "; ".join(str(int(i)) for i in l) + "]%Z"


def ql(l):
    F = [Fr(v) for v in l]
    den = common_den(F)
    return f"(qnums {den} [" + "; ".join(str(int(v * den)) for v in F) + "]%Z)"


GRID_KINDS = ["asis", "asis", "other-width", "fortran", "strided", "readonly"]


def as_kind(arr, how):
    """the same values held differently by the caller"""
    np = np_()
    if how == "other-width":
        return arr.astype(np.float64 if arr.dtype == np.float32 else np.float32)
    if how == "fortran":
        return np.asfortranarray(arr)
    if how == "strided":
        big = np.full((2 * arr.shape[0], 2 * arr.shape[1]), 7, dtype=arr.dtype)
        big[::2, ::2] = arr
        return big[::2, ::2]
    if how == "readonly":
        r = arr.copy()
        r.flags.writeable = False
        return r
    if how in ("i32", "f32"):
        return arr.astype(np.int32 if how == "i32" else np.float32)
    return arr


def make_grid(gb, rd):
    """the grid of a descriptor case: rectangular_grid of rd['grid'], or -- rd['big'] -- a large point set generated from a seed:
    'random' (G dyadic points in the padded bounding box), 'lattice' (the rectangular grid of the box), 'shuffled' (G points of
    that lattice in random order: the tail of the array is not the empty far face of the box)"""
    np = np_()
    gp = rd["grid"]
    b = rd.get("big")
    if not b:
        return gb.rectangular_grid(gp["r1"], gp["r2"], padding=gp["pad"], spacing=gp["s"], dtype=gp["dtype"])
    rs = np.random.RandomState(b["seed"])
    lo = [gp["r1"][k] - gp["pad"] for k in range(3)]
    hi = [gp["r2"][k] + gp["pad"] for k in range(3)]
    if b["mode"] == "random":
        pts = np.column_stack([rs.randint(int(lo[k] * 8), int(hi[k] * 8) + 1, size=b["G"]) / 8.0 for k in range(3)])
        return pts.astype(gp["dtype"])
    lat = gb.rectangular_grid(gp["r1"], gp["r2"], padding=gp["pad"], spacing=b["s"], dtype=gp["dtype"])
    if b["mode"] == "shuffled":
        lat = lat[rs.permutation(lat.shape[0])[:b["G"]]]
    return lat


def blocks_of(G, per_point, limit=1 << 20):
    """the harness's OWN blocking of a reference evaluation (ceil count: the partial last block is included)"""
    step = max(1, limit // max(1, per_point))
    return [slice(a, min(G, a + step)) for a in range(0, G, step)]


def dist2_block(co, g64, sl):
    return ((co[:, :, None, :] - g64[None, None, sl, :]) ** 2).sum(-1)            # (C, N, g), float64 reference


def ref_fields(co, g64, radii, want_near):
    """inside (C, G), ambiguous (G), nearest atom (C, G) -- float64 numpy evaluation of the definition"""
    np = np_()
    C, N = co.shape[:2]
    G = g64.shape[0]
    inside = np.zeros((C, G), dtype=bool)
    amb = np.zeros(G, dtype=bool)
    near = np.zeros((C, G), dtype=np.int64) if want_near else None
    r2 = (radii ** 2)[None, :, None]
    for sl in blocks_of(G, C * N):
        d2 = dist2_block(co, g64, sl)
        inside[:, sl] = (d2 <= r2).any(axis=1)
        amb[sl] = (np.abs(d2 - r2) <= float(SURF_BAND)).any(axis=(0, 1))
        if want_near:
            near[:, sl] = d2.argmin(axis=1)
            if N > 1:                                                            # ties between nearest atoms: either is right
                srt = np.sort(np.partition(d2, 1, axis=1)[:, :2, :], axis=1)
                amb[sl] |= (srt[:, 1, :] - srt[:, 0, :] <= 1e-9 * (1 + srt[:, 0, :])).any(axis=0)
    return inside, amb, near


def judge_nearest(rd, what, obs, cosel, g64):
    np = np_()
    G = g64.shape[0]
    if obs.shape != ((cosel.shape[0], G) if rd["target"] == "ens" else (G,)):
        return ("nearest:wrong-shape", f"{what}: result shape {obs.shape}")
    rows = obs.reshape((-1, G)).astype(np.int64)
    if not (rows == obs.reshape((-1, G))).all():
        return ("nearest:wrong-index", f"{what}: the result holds non-integral values")
    b = float(NEAR_BAND) * 4
    N = cosel.shape[1]
    for sl in blocks_of(G, cosel.shape[0] * N):
        dsel = np.sqrt(dist2_block(cosel, g64, sl))                              # (C, N, g)
        dmin = dsel.min(axis=1)
        r = rows[:, sl]
        inr = (r >= 0) & (r < N)
        dr = np.take_along_axis(dsel, np.clip(r, 0, N - 1)[:, None, :], axis=1)[:, 0, :]
        ok = np.where(r == -1, dmin >= rd["cut"] * (1 - b), inr & (dr <= rd["cut"] * (1 + b)) & (dr <= dmin * (1 + b)))
        if not ok.all():
            c, k = (int(x) for x in np.argwhere(~ok)[0])
            gi = sl.start + k
            tag = "plain-geometry" if rd["target"] != "ens" else "ensemble"
            return (f"nearest:{tag}:wrong-index", f"{what}: target={rd['target']} max_dist={rd['cut']}: grid point #{gi} {g64[gi].tolist()} got index {int(r[c, k])}, "
                    f"closest atom is at distance {dmin[c, k]:.6f}" + (f", atom {int(r[c, k])} at {dr[c, k]:.6f}" if inr[c, k] else ""))
    return None


def judge_prune(rd, what, kept, cosel, g64):
    np = np_()
    G = g64.shape[0]
    kl = [int(i) for i in kept.tolist()] if kept.ndim == 1 else None
    if kl is None or kl != kept.tolist() or any(i < 0 or i >= G for i in kl) or any(b <= a for a, b in zip(kl, kl[1:])):
        return ("prune:bad-indices", f"{what}: result is not an ascending list of grid indices: {kept.tolist()[:20]}")
    atoms = cosel.reshape((1, -1, 3))
    mask = np.zeros(G, dtype=bool)
    mask[kl] = True
    b = float(NEAR_BAND) * 4
    for sl in blocks_of(G, atoms.shape[1]):
        dmin = np.sqrt(dist2_block(atoms, g64, sl))[0].min(axis=0)
        far = mask[sl] & (dmin > rd["cut"] * (1 + b))
        close = ~mask[sl] & (dmin < rd["cut"] / (1 + rd["eps"]) * (1 - b))
        if far.any() or close.any():
            k = int(np.argwhere(far | close)[0][0])
            gi = sl.start + k
            if far[k]:
                return ("prune:kept-too-far", f"{what}: max_dist={rd['cut']}: kept grid point #{gi} {g64[gi].tolist()} is {dmin[k]:.6f} from the nearest atom")
            return ("prune:dropped-too-close", f"{what}: max_dist={rd['cut']} eps={rd['eps']}: dropped grid point #{gi} {g64[gi].tolist()} is only {dmin[k]:.6f} "
                    f"from the nearest atom (< max_dist/(1+eps) = {rd['cut'] / (1 + rd['eps']):.6f})")
    return None


def sample_idx(G, C, N, interesting, seed):
    """grid positions compared inside Coq when the grid is too large for a literal: both ends, the points around the end of the
    last full block for every candidate block length (2^e points, or 2^e distance-array elements per block), random points and
    points with a non-trivial value"""
    import random
    r = random.Random(seed)
    S = {0, 1, G - 2, G - 1}
    bnd = set()
    for e in (8, 10, 11, 12, 13, 14, 15, 16, 18, 20, 22, 24):
        T = 1 << e
        for step in {T, T // (C * N), T // N, T // C}:
            if 1 <= step < G:
                last = (G // step) * step
                bnd |= {last - 1, last, step - 1, step}
    bnd = sorted(i for i in bnd if 0 <= i < G)
    S |= set(r.sample(bnd, min(len(bnd), 18)))
    S |= set(r.sample(range(G), min(G, 8)))
    inter = [int(i) for i in interesting]
    S |= set(r.sample(inter, min(len(inter), 10)))
    return sorted(i for i in S if 0 <= i < G)


def run_desc(ml, rd, objs=None):
    """(term|None, [violations], info).  objs = (ensemble, target) when the call is made on live objects whose current
    state is described by rd; otherwise they are built from rd.  The call is made rd['reps'] times with the same argument
    objects (grid held as rd['gk']); every call is judged, and every array argument must be unchanged afterwards."""
    np = np_()
    from molli.descriptor import gridbased as gb
    kind = rd["kind"]
    gp = rd["grid"]
    try:
        grid = make_grid(gb, rd)
    except Exception as e:  # noqa
        return None, None, {"skipped": f"grid construction raised {e!r} (judged by the grid cases)"}
    G = int(grid.shape[0])
    if G == 0 or (G > 400 and not rd.get("big")):
        return None, None, {"skipped": "empty or oversized grid"}
    grid = as_kind(grid, rd.get("gk", "asis"))
    g64 = np.asarray(grid, dtype=np.float64)
    ens = objs[0] if objs else build(ml, rd)
    co = np.array(rd["coords"], dtype=np.float64)
    C, N = co.shape[:2]
    info = {"G": G}
    what = (f"{kind} on {C} conformer(s) x {N} atom(s), grid {gp}" + (f" [{rd['big']}: {G} points]" if rd.get("big") else "")
            + (f" held as {rd['gk']}" if rd.get("gk", "asis") != "asis" else ""))
    w = np.array(rd["weights"], dtype=float) if rd["weighted"] else None
    wq = "None" if w is None else f"(Some {ql(rd['weights'])})"
    viols = []
    try:
        named = [("grid", grid), ("ens.coords", ens.coords), ("ens.weights", ens.weights), ("ens.atomic_charges", ens.atomic_charges)]
        if kind in ("nearest", "prune"):
            tgt, cosel = (objs[1], cosel_of(rd)) if objs else target_of(ml, rd, ens)
            named.append(("target.coords", tgt.coords))
            if kind == "nearest":
                call = lambda: np.asarray(gb.nearest_atom_index(grid, tgt, max_dist=rd["cut"]))
                judge = lambda o: judge_nearest(rd, what, o, cosel, g64)
            else:
                call = lambda: np.asarray(gb.prune(grid, tgt, max_dist=rd["cut"], eps=rd["eps"]))
                judge = lambda o: judge_prune(rd, what, o, cosel, g64)
        else:
            if kind == "aif":
                radii = as_kind(np.array(rd["radii"], dtype=np.float64), rd.get("rk", "asis"))
                values = as_kind(np.array(rd["values"], dtype=np.float64), rd.get("vk", "asis"))
                named += [("indicator_values", values), ("atomic_radii", radii)]
            else:
                radii = np.array([a.vdw_radius for a in ens.atoms], dtype=np.float64)
                values = np.array(rd["charges"], dtype=np.float64)
            rad64, val64 = np.asarray(radii, dtype=np.float64), np.asarray(values, dtype=np.float64)
            inside, amb, near = ref_fields(co, g64, rad64, kind != "aso")
            info["ambiguous"] = int(amb.sum())
            if kind == "aso":
                ref = np.average(inside.astype(float), axis=0, weights=w)
                call = lambda: np.asarray(gb.aso(ens, grid, weighted=rd["weighted"]), dtype=np.float64)
            else:
                cut = float(np.max(rad64))
                idx = as_kind(np.asarray(gb.nearest_atom_index(grid, ens, max_dist=float(np.max(radii)))), rd.get("ik", "asis"))
                per = np.where(inside, np.take_along_axis(val64, near, axis=1), 0.0)
                ref = np.average(per, axis=0, weights=w)
                if kind == "aeif":
                    if rd.get("pass_idx"):
                        named.append(("nearest_atom_idx", idx))
                    call = lambda: np.asarray(gb.aeif(ens, grid, nearest_atom_idx=(idx if rd.get("pass_idx") else None), weighted=rd["weighted"]), dtype=np.float64)
                else:
                    if rd["pass_idx"]:
                        named.append(("nearest_atom_idx", idx))
                    call = lambda: np.asarray(gb.atomic_indicator_field(ens, grid, values, radii, nearest_atom_idx=(idx if rd["pass_idx"] else None),
                                                                        weighted=rd["weighted"]), dtype=np.float64)
            judge = lambda o: desc_compare(kind, what, o, ref, amb, g64)
        frozen = arg_state(named)
        obs = None
        for i in range(int(rd.get("reps", 1))):
            obs = call()
            v = judge(obs)
            if v:
                viols.append((v[0] + (":repeated-call" if i else ""), (f"call {i + 1} with the same argument objects: " if i else "") + v[1]))
            bad = args_changed(frozen) if not any(":argument-mutated:" in x[0] for x in viols) else []
            if bad:                    # reported once; a further call shows what it does to the next result
                viols.append((f"{kind}:argument-mutated:" + "+".join(bad), f"{what}: the call changed the caller's array argument(s) {bad}"))
            if v:
                break
        # ---- the case term: the whole grid, or -- large grid -- the sampled positions (C19_sample)
        if G <= 400:
            S = None
            sub = lambda a: a
        else:
            try:
                inter = (np.nonzero((obs.reshape((-1, G)) >= 0).any(axis=0))[0] if kind == "nearest" else
                         [i for i in obs.tolist() if 0 <= i < G] if kind == "prune" else np.nonzero(obs)[0])
            except Exception:  # noqa
                inter = []
            S = sample_idx(G, C, N, inter, rd["big"]["seed"])
            info["sampled"] = len(S)
            sub = lambda a: a[..., S]
        gS = g64 if S is None else g64[S]
        if kind == "nearest":
            rows = obs.reshape((-1, G)) if obs.ndim == 1 else obs
            if rows.ndim != 2 or rows.shape[1] != G:
                return None, viols, info
            term = f"(CNearest {q(NEAR_BAND)} {ensq(cosel.tolist())} {q(rd['cut'])} {ptsq(gS.tolist())} {cq_list(zl(r) for r in sub(rows).tolist())})"
        elif kind == "prune":
            if obs.ndim != 1:
                return None, viols, info
            kl = [int(i) for i in obs.tolist()]
            if S is not None:
                pos = {g: j for j, g in enumerate(S)}
                kl = [pos[i] for i in kl if i in pos]
            term = f"(CPrune {q(NEAR_BAND)} {ptsq(cosel.reshape((-1, 3)).tolist())} {q(rd['cut'])} {q(rd['eps'])} {ptsq(gS.tolist())} {zl(kl)})"
        elif obs.shape != (G,):
            return None, viols, info
        elif kind == "aso":
            term = f"(CAso {q(SURF_BAND)} {q(VAL_TOL)} {ensq(co.tolist())} {ql(rad64.tolist())} {wq} {ptsq(gS.tolist())} {ql(sub(obs).tolist())})"
        else:
            term = (f"(CAif {q(SURF_BAND)} {q(NEAR_BAND)} {q(VAL_TOL)} {ensq(co.tolist())} {ql(rad64.tolist())} {cq_list(ql(v) for v in val64.tolist())} "
                    f"{q(cut)} {cq_list(zl(r) for r in sub(np.asarray(idx)).tolist())} {wq} {ptsq(gS.tolist())} {ql(sub(obs).tolist())})")
        return term, viols, info
    except Exception as e:  # noqa
        return None, viols + [(f"{kind}:raises-{type(e).__name__}", f"{what}: raised {e!r}")], info


def desc_compare(kind, what, obs, ref, amb, g64):
    np = np_()
    if obs.shape != ref.shape:
        return (f"{kind}:wrong-shape", f"{what}: result shape {obs.shape}, expected {ref.shape}")
    bad = ((np.abs(obs - ref) > float(VAL_TOL) * 4) | ~np.isfinite(obs)) & ~amb
    if bad.any():
        gi = int(np.argwhere(bad)[0][0])
        return (f"{kind}:wrong-value", f"{what}: at grid point #{gi} {g64[gi].tolist()} the result is {obs[gi]!r}, the conformer average of the "
                f"van der Waals indicator is {ref[gi]!r} ({int(bad.sum())} of {len(bad)} points differ, positions {int(np.argwhere(bad)[0][0])}..{int(np.argwhere(bad)[-1][0])})")
    return None


def last_axis_probe(rd):
    """arrays whose last axis is not 3: the call must raise or agree with the numpy evaluation over all columns.
    (Only widths > 3 are probed: a narrower row makes the kernel read past the buffer.)"""
    np = np_()
    import molli_xt
    a = np.array(rd["a"], dtype=np.float64)
    b = np.array(rd["b"], dtype=np.float64)
    try:
        r = np.asarray(getattr(molli_xt, rd["name"])(a, b), dtype=np.float64)
    except Exception:  # noqa
        return None
    ref = ((a[:, None, :] - b[None, :, :]) ** 2).sum(-1)
    ref = ref if rd["name"].endswith("eu2") else np.sqrt(ref)
    if r.shape != ref.shape or np.abs(r - ref).max() > 1e-9 * (1 + np.abs(ref).max()):
        return (KNOWN_AXIS, f"{rd['name']} accepts arrays of shape {list(a.shape)} and {list(b.shape)} without an error and returns {r.tolist()}; "
                f"the distances over all {a.shape[1]} columns are {ref.tolist()} (only the first 3 columns of each row are read)")
    return None


# ------------------------------------------------------------------ the run
def run(ctx, rep):
    rep.rule = ("a case = one call of the implementation (a kernel registered by the C++ source, built from source; the same kernel in the "
                "shipped extension; a grid / descriptor function); non-trivial when it returned an observation that was compared with the "
                "model inside Coq; distinct by function, element type, layout, shapes and input values")
    rep.trusted += ["harness/c19.py: generators, float -> exact rational encoding (Fraction(float)), layouts",
                    "tools/pybind11_shim (array_t / module_ stand-in, driver) + g++: the source build runs the registered kernels outside CPython",
                    "CPython / numpy / scipy.spatial.KDTree executing molli (IEEE rounding only tolerance-checked)"]
    rep.assumptions += ["grid: equality on dyadic boxes/spacings (float32 and float64), 1e-9 (float64) / 1e-5 (float32) on generic decimals, cases whose point "
                        "count is within rounding of a floor boundary are generated but not compared",
                        "descriptors: grid points with |d^2 - r^2| <= 2e-3 for some atom (float32 rounding band around a sphere surface) are left out; nearest/prune: "
                        "relative band 1e-9 around the cut-off and between tied atoms; values within 1e-9",
                        "scipy KDTree is external: its answers are checked against the specification inside Coq, not modelled",
                        "large grids (> 400 points for the descriptors, > 1500 for rectangular_grid; up to 1.5e5 points, distance arrays up to 2^24 elements): "
                        "ALL points are judged by the float64 numpy oracle (evaluated in the harness's own ceil-count blocks); inside Coq only a sample of "
                        "<= ~45 positions per case is compared (both ends, the points around the end of the last full block for every candidate block "
                        "length 2^8..2^24 points / distance elements, random and non-zero points) because a literal of the whole grid is too large -- "
                        "C19_sample / C19_blockwise / C19_grid_at state why the point-wise sample is meaningful",
                        "argument kinds: corners as list / tuple / float32 / float64 / int64 ndarray / row view / strided view / read-only array, one object as both "
                        "corners, the same corner objects in 3 consecutive calls; grid as returned / other float width / Fortran order / strided view / read-only, "
                        "radii, values and nearest_atom_idx in other widths / layouts / read-only; 1-2 calls with the same argument objects; after every call "
                        "every array argument (and the ensemble's coords / weights / charges) must be bit-for-bit unchanged",
                        "kernels: equality on dyadic inputs (|k|<2^10, 4 fractional bits), relative 2^-20 (float32) / 2^-48 (float64) on generic floats",
                        "sqrt is modelled by its specification: d >= 0 and d*d within s*tol of s (C19_sqrt_close)"]
    import time
    t0 = time.time()
    ok, out, where = vlib.build_props(ctx, rep, "C19")
    rep.extra["t_build_props"] = round(time.time() - t0, 1)
    found = False
    terms, owners, flagged, known = kernels(ctx, rep)
    for name in ("cdist22_eu2", "cdist22d_eu"):
        rd = dict(kind="last-axis", name=name, a=[[0.0, 0.0, 0.0, 1.0], [1.0, 2.0, 3.0, 4.0]], b=[[0.0, 0.0, 0.0, 3.0]])
        v = last_axis_probe(rd)
        rep.case(key=None)
        rep.count("kernel:ext:last-axis-4")
        if v:
            rep.violate(v[0], v[1], rd)
            known = known | {v[0]}
    found = real_violation(rep)
    bad = vlib.run_shards(ctx, rep, "c19k", HEADER_D, "check", terms, shard=max(1, -(-len(terms) // 12)), timeout=600, case_type="case")
    rep.extra["kernel_shard_cases"] = len(terms)
    rep.extra["t_kernels"] = round(time.time() - t0, 1)
    report_bad(ctx, rep, "corr_c19k", bad, owners, flagged, found)
    # ---- grid and descriptors
    import molli as ml
    gterms, gowners, gflagged = [], [], set()
    for rd in grid_inputs(ctx) + gridseq_inputs(ctx) + desc_inputs(ctx) + seq_inputs(ctx) + big_inputs(ctx):
        if rd["kind"] == "seq":
            results = [(f"seq:{rd['desc']}:" + ("call-0" if i == 0 else ("fresh" if rd["steps"][i - 1][0] == "fresh" else "edited")), dict(rd, call=i), r)
                       for i, r in enumerate(run_seq(ml, rd))]
        elif rd["kind"] == "gridseq":
            results = [(f"gridargs:{rd['k1']}/{rd['k2']}" if i == 0 else "gridargs:call-2+:same-corner-objects", dict(rd, call=i), r)
                       for i, r in enumerate(run_gridseq(rd))]
            rep.count("gridargs:one-object-as-both-corners" if rd["same"] else "gridargs:two-objects")
        else:
            results = [(f"{rd['kind']}:{rd['stream']}" + (":" + rd["target"] if "target" in rd else "") + (":large" if rd.get("big") else ""), rd,
                        run_grid(rd) if rd["kind"] == "grid" else run_desc(ml, rd))]
            if rd["kind"] != "grid":
                rep.count("args:grid-held-as:" + rd.get("gk", "asis"))
                rep.count("args:calls-with-the-same-objects:" + str(rd.get("reps", 1)))
                for k in ("rk", "vk", "ik"):
                    if rd.get(k, "asis") != "asis":
                        rep.count({"rk": "args:radii:", "vk": "args:values:", "ik": "args:nearest_atom_idx:"}[k] + rd[k])
            if rd.get("big") and rd["kind"] != "grid":
                C, N, G = len(rd["coords"]), len(rd["coords"][0]), results[0][2][2].get("G", 0)
                rep.count(f"large:{rd['kind']}")
                rep.count(f"large:grid-mode:{rd['big']['mode']}")
                rep.count(f"large:distance-array-elements:2^{max(1, C * N * G).bit_length() - 1}")
                rep.count("large:grid-size:" + ("power-of-two" if G & (G - 1) == 0 else "multiple-of-1024" if G % 1024 == 0 else
                                                "power-of-two+-1" if (G + 1) & G == 0 or (G - 1) & (G - 2) == 0 else "other"))
                rep.count(f"large:ensemble:{'>=16' if C >= 16 else '<16'}-conformers-x-{'>=33' if N >= 33 else '>10' if N > 10 else '<=10'}-atoms")
                rep.extra["large_cases_sampled_points"] = rep.extra.get("large_cases_sampled_points", 0) + results[0][2][2].get("sampled", 0)
            elif rd.get("big"):
                rep.count("large:grid")
        for tag, owner, (term, viol, info) in results:
            rep.count(tag)
            if info.get("id_reused"):
                rep.count("seq:fresh:landed-on-the-id-of-a-dead-object")
            for v in vlist(viol):
                gflagged.add(len(gowners))
                rep.violate("C19:" + (("grid:" + v[0]) if rd["kind"] in ("grid", "gridseq") else v[0]), v[1], owner)
            if term is None:
                rep.case(key=None)
                rep.count("not-compared")
                continue
            rep.case(key=json.dumps(owner, sort_keys=True), sample=(owner if len(gterms) % 40 == 0 and rd["kind"] not in ("seq", "gridseq") and not rd.get("big") else None))
            gterms.append(term)
            gowners.append(owner)
    rep.extra["t_grid_driven"] = round(time.time() - t0, 1)
    # spread the expensive kinds evenly over the shards
    nsh = 16 if not ctx.thorough else 64
    order = [j for s0 in range(nsh) for j in range(s0, len(gterms), nsh)]
    gterms = [gterms[j] for j in order]
    gowners = [gowners[j] for j in order]
    found = real_violation(rep)
    gbad = vlib.run_shards(ctx, rep, "c19g", HEADER_G, "gcheck", gterms, shard=max(1, -(-len(gterms) // nsh)), timeout=900, case_type="gcase")
    rep.extra["grid_shard_cases"] = len(gterms)
    rep.extra["t_grid_shards"] = round(time.time() - t0, 1)
    report_bad(ctx, rep, "corr_c19g", gbad, gowners, gflagged, found)
    if not ok:
        vlib.broken_obligation(rep, "C19_props", f"{where}\n{out[-1500:]}", real_violation(rep))
    for k in vlib.load_known():
        if k.get("property") == "C19" and k.get("status") == "known" and k["signature"] not in known:
            if any(v.sig == k["signature"] for v in replay(ctx, k["witness"])):
                known = set(known) | {k["signature"]}
    return tuple(sorted(known))


def real_violation(rep):
    """a concrete failing input that is not one of the recorded findings"""
    return any((not v.no_input) and v.sig not in (KNOWN_F32, KNOWN_AXIS) for v in rep.violations)


def report_bad(ctx, rep, name, bad, owners, flagged, found):
    if bad is None:
        vlib.broken_obligation(rep, name, "a correspondence shard did not compile: " + str(rep.extra.get("shard_errors", ""))[-800:], found)
    elif bad:
        unexplained = [b for b in bad if b not in flagged]
        rep.extra.setdefault("mismatching_cases", []).extend(
            [{k: (v if k not in ("a", "b", "coords") else str(v)[:300]) for k, v in owners[b].items()} for b in bad[:6]])
        if unexplained and not found:
            # model and implementation disagree although the oracle accepted these inputs: widen the search
            more = widen(ctx, rep, sorted({owners[b]["kind"] for b in unexplained}))
            if not more:
                vlib.broken_obligation(rep, name, f"{len(unexplained)} case(s) differ from the model although the oracle accepted them, e.g. "
                                       + json.dumps(owners[unexplained[0]], default=str)[:700], False)


def widen(ctx, rep, kinds):
    """oracle only, over a larger fresh sample of the kinds that mismatched; True when a concrete violation was found"""
    import random
    sub = vlib.Ctx.__new__(vlib.Ctx)
    sub.__dict__.update(ctx.__dict__)
    sub.rng = random.Random(ctx.seed * 7919 + 19)
    sub.tier = "thorough"
    hit = False
    if "kernel" in kinds:
        exe, _ = build_shim(ctx)
        ins = kernel_inputs(sub)[:1500]
        if exe:
            sel = [i for i in ins if (i["name"][7] not in "fd") or i["name"][7] == i["dt"]]
            res, _ = run_shim(exe, sel)
            for inp, obs in zip(sel, res or []):
                v = judge_kernel(inp, obs, inp["dt"])
                if v:
                    hit = True
                    rep.violate(f"C19:kernel:source:{inp['name']}:{v[0]}", "built from molli_xt/distance.cpp: " + v[1],
                                dict(kind="kernel", via="shim", name=inp["name"], dt=inp["dt"], exact=inp["exact"], shape1=inp["shape1"], a=inp["a"], b=inp["b"]))
                    break
    rest = [k for k in kinds if k != "kernel"]
    if rest:
        import molli as ml
        pool = (grid_inputs(sub) if "grid" in rest else []) + [rd for rd in desc_inputs(sub) if rd["kind"] in rest][:400]
        if "seq" in rest:
            for sd in seq_inputs(sub)[:120]:
                for i, (_, viol, _) in enumerate(run_seq(ml, sd)):
                    for v in vlist(viol):
                        rep.violate("C19:" + v[0], v[1], dict(sd, call=i))
                        return True
        if "gridseq" in rest:
            for sd in gridseq_inputs(sub)[:200]:
                for i, (_, viol, _) in enumerate(run_gridseq(sd)):
                    for v in vlist(viol):
                        rep.violate("C19:grid:" + v[0], v[1], dict(sd, call=i))
                        return True
        pool += [rd for rd in big_inputs(sub) if rd["kind"] in rest][:60]
        for rd in pool:
            _, viol, _ = run_grid(rd) if rd["kind"] == "grid" else run_desc(ml, rd)
            for v in vlist(viol):
                hit = True
                rep.violate("C19:" + (("grid:" + v[0]) if rd["kind"] == "grid" else v[0]), v[1], rd)
            if hit:
                break
    return hit


def replay(ctx, data):
    np = np_()
    out = []
    if data.get("kind") == "last-axis":
        v = last_axis_probe(data)
        return [vlib.Violation(v[0], v[1], data)] if v else []
    if data.get("kind") == "grid":
        _, viol, _ = run_grid(data)
        return [vlib.Violation("C19:grid:" + v[0], v[1], data) for v in vlist(viol)]
    if data.get("kind") == "gridseq":
        return [vlib.Violation("C19:grid:" + v[0], v[1], dict(data, call=i)) for i, (_, viol, _) in enumerate(run_gridseq(data)) for v in vlist(viol)]
    if data.get("kind") == "seq":
        import molli as ml
        return [vlib.Violation("C19:" + v[0], v[1], dict(data, call=i)) for i, (_, viol, _) in enumerate(run_seq(ml, data)) for v in vlist(viol)]
    if data.get("kind") in ("nearest", "prune", "aso", "aeif", "aif"):
        import molli as ml
        _, viol, _ = run_desc(ml, data)
        return [vlib.Violation("C19:" + v[0], v[1], data) for v in vlist(viol)]
    if data.get("kind") == "kernel":
        inp = dict(name=data["name"], dt=data["dt"], exact=data["exact"], shape1=data["shape1"], a=data["a"], b=data["b"])
        if data["via"] == "shim":
            exe, log = build_shim(ctx)
            if exe is None:
                return [vlib.Violation("broken:shim-build", log[-500:], data, no_input=True)]
            res, why = run_shim(exe, [inp])
            obs = res[0] if res else ("err", why)
            v = judge_kernel(inp, obs, inp["dt"])
            if v:
                out.append(vlib.Violation(f"C19:kernel:source:{inp['name']}:{v[0]}", v[1], data))
        else:
            obs = run_ext(inp, data["layout"], ctx.rng)
            v = judge_kernel(inp, obs, inp["dt"] if (inp["name"][7] != "f" and data["layout"] not in ("int", "mixed")) else "f")
            if v:
                sig = f"C19:kernel:ext:{inp['name']}:{v[0]}"
                if (v[0] == "wrong-value" and inp["dt"] == "d" and inp["name"][7] == "_" and obs[0] == "ok" and obs[3] == "float32" and not obs[4]):
                    sig = KNOWN_F32
                out.append(vlib.Violation(sig, v[1], data))
    return out
