"""C14 -- a conformer ensemble stays rectangular and its conformers are live views.

Tie H: random histories over {construct from None / atoms / list of structures (molecules, conformer views) /
ensemble / molecule / conformer / plain structure, with and without explicit coords / atomic_charges / weights,
io round trip (msgpack + molli.chem.io v2), append, extend (list, ensemble), scale, invert, translate (1-d, 2-d),
rotate (one matrix, one per conformer), whole-array setters, writes through a conformer (coords / charges,
whole row and element-wise, scale / translate / transform of the view), reads through a conformer, a conformer through the
molecule codec of molli.chem.io (as a MoleculeLibrary stores it), iter()/next()
on any number of interleaved iterators, nested loops, dumps inside a loop, slices (every form: negative / zero /
out-of-range / missing start and stop, steps of either sign and of size > 1, step 0), a transformation applied through
every element of a slice, dumps_xyz / dumps_mol2 of a conformer and of the ensemble} are driven through the REAL ConformerEnsemble / Conformer classes.  Numbers are
integer-valued doubles (or NaN), all distinct when handed in, so every transform is exact and a row read from the
wrong place is visible.  After EVERY call the harness records whether it raised, what it returned and every
ensemble created so far (n_atoms, coords, atomic_charges, weights: shapes and contents); `check_case` of
Model/Ens.v replays the history in the model inside Coq (vm_compute) and must reproduce every observation.  The
theorems of Props/C14.v are about those very definitions.

Python oracle: judges the property on the implementation alone after every step: rectangularity, view reads and
write-through both ways (incl. handles created earlier), frame (nothing else changes), iteration order / count,
dumps and io round trip of every conformer; ens[a:b:c] is exactly [ens[i] for i in range(n)[a:b:c]] (own re-implementation
of the list-slice rule, cross-checked against CPython's), each element a live view of its row, and a write through the
elements of a slice lands in exactly those rows, once.

Detached views: conformers obtained by routes that leave their ensemble referenced by nothing else (pickle of a conformer / a
slice / the ensemble, deepcopy, copy + del, helper index / slice / list / next(iter()), io round trip, loads_mol2, ensemble of
conformers), gc.collect(), then used as molecules (read, written through, dumped, stored, cloned, pickled again); every conformer
read after every use, the copied-from ensemble compared; replayed by check_detached of Model/Ens.v.

Slice sweep: every slice with start, stop in {None} u [-n-2, n+2] and step in {None, 1, 2, 3, -1, -2, -3, 0} of ensembles
of n = 0..4 (thorough: 0..6) conformers is taken (and, for a part of them, written through).
"""
import os, sys, json, math
import vlib
from vlib import cq_list, cq_bool

HEADER = ("From Coq Require Import List ZArith.\nImport ListNotations.\n"
          "From Molli Require Import Model.Ens.\nLocal Open Scope Z_scope.\n"
          "Notation \"# x\" := (x%nat) (at level 0, x at level 0, only parsing).\n")

K_CTOR0 = "C14:ctor:molecule:n_conformers=0"
K_EMPTY = "C14:append:atomless-empty-ensemble"
K_LEGACY = "C14:serialize:legacy-method-raises"

BIG = 1 << 40          # magnitudes are kept below this (exact in a double with a wide margin)
F4 = 1 << 24           # integers below this survive the '>f4' buffers of the io round trip
BOGUS = 987654321


# ------------------------------------------------------------------ Coq literals
def zt(z):
    return f"({z})" if z < 0 else str(z)


def nat(k):
    assert 0 <= k < 5000
    return f"#{k}"


def num_t(x):
    return "NaN" if x is None else "n " + zt(x)


def nums_t(l):
    return cq_list(num_t(x) for x in l)


def row_t(r):
    if all(x is None for x in r):
        return "rnan"
    if all(x is not None for x in r):
        return "r3 " + " ".join(zt(x) for x in r)
    return "(" + ", ".join(num_t(x) for x in r) + ")"


def rows_t(l):
    return cq_list(row_t(r) for r in l)


def opt_t(x, f):
    return "None" if x is None else f"(Some {f(x)})"


def vec_t(v):
    return "(" + ", ".join(zt(x) for x in v) + ")"


def mat_t(m):
    return "(" + ", ".join(vec_t(r) for r in m) + ")"


def geom_t(g):
    if g[0] == "lit":
        return f"(GLit {rows_t(g[1])} {nums_t(g[2])})"
    if g[0] == "geom":
        return f"(GGeom {rows_t(g[1])})"
    return f"(GConf {nat(g[1])} {zt(g[2])})"


def ens_t(s):
    return f"(mkEns {nat(s['na'])} {cq_list(rows_t(c) for c in s['c'])} {cq_list(nums_t(q) for q in s['q'])} {nums_t(s['w'])})"


def op_term(op):
    k = op[0]
    if k == "new":
        _, src, nc_arg, na_arg, xc, xq, xw, _h = op
        if src[0] == "none":
            st = "SrcNone"
        elif src[0] == "atoms":
            st = f"(SrcAtoms {nat(src[1])})"
        elif src[0] == "list":
            st = "(SrcList " + cq_list(geom_t(g) for g in src[1]) + ")"
        elif src[0] == "ens":
            st = f"(SrcEns {nat(src[1])})"
        else:
            st = f"(SrcMol {geom_t(src[1])})"
        return (f"(New {st} {opt_t(nc_arg, nat)} {nat(na_arg)} {opt_t(xc, lambda v: cq_list(rows_t(c) for c in v))} "
                f"{opt_t(xq, lambda v: cq_list(nums_t(q) for q in v))} {opt_t(xw, nums_t)})")
    if k == "serialise":
        return f"(Serialise {nat(op[1])})"
    if k == "append":
        return f"(Append {nat(op[1])} {geom_t(op[2])})"
    if k == "extend":
        return f"(Extend {nat(op[1])} {cq_list(geom_t(g) for g in op[2])})"
    if k == "extend_ens":
        return f"(ExtendEns {nat(op[1])} {nat(op[2])})"
    if k == "scale":
        return f"(Scale {nat(op[1])} {zt(op[2])} {cq_bool(op[3])})"
    if k == "invert":
        return f"(Invert {nat(op[1])})"
    if k == "translate1":
        return f"(Translate1 {nat(op[1])} {vec_t(op[2])})"
    if k == "translate2":
        return f"(Translate2 {nat(op[1])} {cq_list(vec_t(v) for v in op[2])})"
    if k == "rotate1":
        return f"(Rotate1 {nat(op[1])} {mat_t(op[2])})"
    if k == "rotaten":
        return f"(RotateN {nat(op[1])} {cq_list(mat_t(m) for m in op[2])})"
    if k == "set_coords":
        return f"(SetCoords {nat(op[1])} {cq_list(rows_t(c) for c in op[2])})"
    if k == "set_charges":
        return f"(SetCharges {nat(op[1])} {cq_list(nums_t(q) for q in op[2])})"
    if k == "set_weights":
        return f"(SetWeights {nat(op[1])} {nums_t(op[2])})"
    if k == "c_set_coords":
        return f"(ConfSetCoords {nat(op[1])} {zt(op[2])} {rows_t(op[4])})"
    if k == "c_set_coord_elem":
        return f"(ConfSetCoordElem {nat(op[1])} {zt(op[2])} {zt(op[4])} ({row_t(op[5])}))"
    if k == "c_set_charges":
        return f"(ConfSetCharges {nat(op[1])} {zt(op[2])} {nums_t(op[4])})"
    if k == "c_set_charge_elem":
        return f"(ConfSetChargeElem {nat(op[1])} {zt(op[2])} {zt(op[4])} ({num_t(op[5])}))"
    if k == "c_scale":
        return f"(ConfScale {nat(op[1])} {zt(op[2])} {zt(op[4])})"
    if k == "c_translate":
        return f"(ConfTranslate {nat(op[1])} {zt(op[2])} {vec_t(op[4])})"
    if k == "c_transform":
        return f"(ConfTransform {nat(op[1])} {zt(op[2])} {mat_t(op[4])})"
    if k == "c_read":
        return f"(ConfRead {nat(op[1])} {zt(op[2])})"
    if k == "c_store":
        return f"(ConfStore {nat(op[1])} {zt(op[2])})"
    if k == "iter_new":
        return f"(IterNew {nat(op[1])})"
    if k == "iter_next":
        return f"(IterNext {nat(op[1])})"
    if k == "nested":
        return f"(Nested {nat(op[1])})"
    if k == "loop_dump":
        return f"(LoopDump {nat(op[1])})"
    if k == "slice":
        return f"(Slice {nat(op[1])} {opt_t(op[2], zt)} {opt_t(op[3], zt)} {opt_t(op[4], zt)})"
    if k == "slice_translate":
        return f"(SliceTranslate {nat(op[1])} {opt_t(op[2], zt)} {opt_t(op[3], zt)} {opt_t(op[4], zt)} {vec_t(op[5])})"
    if k in ("dump_xyz", "dump_mol2"):
        return f"({'DumpXyz' if k == 'dump_xyz' else 'DumpMol2'} {nat(op[1])})"
    if k in ("c_dump_xyz", "c_dump_mol2"):
        return f"({'ConfDumpXyz' if k == 'c_dump_xyz' else 'ConfDumpMol2'} {nat(op[1])} {zt(op[2])})"
    raise AssertionError(k)


def out_term(o):
    if o is None:
        return "ONone"
    k = o[0]
    if k == "yield":
        return f"(OYield {opt_t(o[1], lambda x: nat(x if 0 <= x < 4999 else 4999))})"
    if k == "ids":
        return "(OIds " + cq_list(zt(x) for x in o[1]) + ")"
    if k == "pairs":
        return "(OPairs " + cq_list(f"({nat(a)}, {nat(b)})" for a, b in o[1]) + ")"
    if k == "conf":
        return f"(OConf {rows_t(o[1])} {nums_t(o[2])})"
    if k == "xyz":
        return "(OXyz " + cq_list(rows_t(b) for b in o[1]) + ")"
    if k == "mol2":
        return "(OMol2 " + cq_list(cq_list(f"({row_t(r)}, {num_t(q)})" for r, q in b) for b in o[1]) + ")"
    raise AssertionError(k)


# ------------------------------------------------------------------ numbers <-> numpy
def tok(x):
    """float -> None (NaN) | int; a non-integer value cannot have been produced from the tokens handed in."""
    x = float(x)
    if x != x:
        return None
    if math.isinf(x) or float(int(x)) != x:
        return BOGUS
    return int(x)


def fl(x):
    return float("nan") if x is None else float(x)


def arr3(np, v, k=None, a=None):
    k = len(v) if k is None else k
    a = (len(v[0]) if v else 0) if a is None else a
    out = np.zeros((k, a, 3))
    for i, c in enumerate(v):
        for j, r in enumerate(c):
            out[i, j] = [fl(x) for x in r]
    return out


def arr2(np, v, k=None, a=None):
    k = len(v) if k is None else k
    a = (len(v[0]) if v else 0) if a is None else a
    out = np.zeros((k, a))
    for i, q in enumerate(v):
        out[i] = [fl(x) for x in q]
    return out


def same(np, a, b):
    a, b = np.asarray(a, dtype=float), np.asarray(b, dtype=float)
    return a.shape == b.shape and bool(np.array_equal(a, b, equal_nan=True))


ELS = ["C", "H", "N", "O", "Cl"]


def conf_index(np, c, ens):
    """Which conformer of `ens` is the view `c`?  Decided through the public API: the row of ens.coords whose memory
    c.coords shares (-1: none).  A view without atoms has no memory to compare; then what the object says about itself."""
    a = np.asarray(c.coords)
    base = np.asarray(ens.coords)
    if a.size:
        for k in range(len(base)):
            if np.shares_memory(a, base[k]):
                return k
        return -1
    k = getattr(c, "_conf_id", None)
    if k is None:
        import re
        m = re.search(r"conf_id=(-?\d+)", str(c))
        k = int(m.group(1)) if m else -1
    return k if isinstance(k, int) and 0 <= k < len(base) else -1


def parse_xyz(text):
    """-> list of blocks, each a list of [x, y, z] tokens; None when the text is not a sequence of xyz blocks."""
    lines = text.split("\n")
    if lines and lines[-1] == "":
        lines.pop()
    blocks, p = [], 0
    try:
        while p < len(lines):
            k = int(lines[p].strip())
            rows = []
            for ln in lines[p + 2:p + 2 + k]:
                f = ln.split()
                rows.append([tok(float(x)) for x in f[1:4]])
            if len(rows) != k:
                return None
            blocks.append(rows)
            p += 2 + k
    except (ValueError, IndexError):
        return None
    return blocks


def parse_mol2(text):
    """-> list of blocks, each a list of ([x, y, z], charge)."""
    blocks = []
    try:
        for part in text.split("@<TRIPOS>MOLECULE")[1:]:
            head = part.split("\n")
            k = int(head[2].split()[0])
            atoms = part.split("@<TRIPOS>ATOM\n")[1].split("@<TRIPOS>BOND")[0]
            rows = []
            for ln in atoms.split("\n"):
                f = ln.split()
                if not f:
                    continue
                rows.append(([tok(float(x)) for x in f[2:5]], tok(float(f[8]))))
            if len(rows) != k:
                return None
            blocks.append(rows)
    except (ValueError, IndexError):
        return None
    return blocks


# ------------------------------------------------------------------ the world: real objects
class World:
    def __init__(self, cap=None):
        import numpy as np
        import molli as ml
        self.np, self.ml = np, ml
        self.cap = cap         # slice sweeps only: at most this many slice elements are kept per row as long-lived handles
        self.E = []            # real ensembles, index = creation order
        self.IT = []           # [iterator object, ensemble index, alive, yields so far, exhausted]
        self.H = {}            # (i, k) -> [Conformer objects created earlier]
        self.next_tok = 1

    # -- fresh, pairwise distinct integer tokens
    def fresh(self):
        self.next_tok += 1
        return self.next_tok * 7 + 1000

    def fresh_rows(self, a):
        return [[self.fresh(), self.fresh(), self.fresh()] for _ in range(a)]

    def fresh_nums(self, a):
        return [self.fresh() for _ in range(a)]

    # -- building real arguments
    def atoms(self, a):
        from molli.chem import Atom
        return [Atom(ELS[i % len(ELS)]) for i in range(a)]

    def geom_py(self, g, held=True):
        np, ml = self.np, self.ml
        if g[0] == "conf":
            return self.handle(g[1], g[2], held)
        a = len(g[1])
        c = np.array([[fl(x) for x in r] for r in g[1]], dtype=float).reshape(a, 3)
        if g[0] == "lit":
            m = ml.Molecule(self.atoms(a), n_atoms=a, name="m", coords=c, atomic_charges=np.array([fl(x) for x in g[2]], dtype=float))
        else:
            m = ml.Structure(self.atoms(a), n_atoms=a, name="s", coords=c)
        if a >= 2:
            m.connect(0, 1)
        return m

    def handle(self, i, k, held=True):
        """A Conformer object for ens_i[k]: one created earlier (still held) or a new one."""
        pool = self.H.setdefault((i, k), [])
        if held and pool:
            return pool[0]
        c = self.E[i][k]
        pool.append(c)
        return c

    # -- reading the public accessors
    def snap_one(self, e):
        np = self.np
        c, q, w = np.asarray(e.coords), np.asarray(e.atomic_charges), np.asarray(e.weights)
        s = {"na": int(e.n_atoms), "cs": tuple(c.shape), "qs": tuple(q.shape), "ws": tuple(w.shape), "nconf": int(e.n_conformers)}
        s["c"] = [[[tok(x) for x in r] for r in conf] for conf in c.tolist()] if c.ndim == 3 and c.shape[-1] == 3 else [[[BOGUS] * 3]]
        s["q"] = [[tok(x) for x in r] for r in q.tolist()] if q.ndim == 2 else [[BOGUS]]
        s["w"] = [tok(x) for x in w.tolist()] if w.ndim == 1 else [BOGUS]
        return s

    def snapshot(self):
        return [self.snap_one(e) for e in self.E]

    def maxabs(self, i):
        np = self.np
        m = 0.0
        for a in (self.E[i].coords, self.E[i].atomic_charges, self.E[i].weights):
            a = np.asarray(a, dtype=float)
            if a.size and not np.isnan(a).all():
                m = max(m, float(np.nanmax(np.abs(a))))
        return m

    # -- executing one operation; returns (raised, exception name, out)
    def execute(self, op):
        np, ml = self.np, self.ml
        from molli.chem import ConformerEnsemble
        k = op[0]
        out = None
        try:
            if k == "new":
                _, src, nc_arg, na_arg, xc, xq, xw, held = op
                kw = {}
                if src[0] == "none":
                    other = None
                    kw["n_atoms"] = na_arg
                elif src[0] == "atoms":
                    other = self.atoms(src[1])
                    kw["n_atoms"] = na_arg
                elif src[0] == "list":
                    other = [self.geom_py(g, held) for g in src[1]]
                elif src[0] == "ens":
                    other = self.E[src[1]]
                else:
                    other = self.geom_py(src[1], held)
                if nc_arg is not None:
                    kw["n_conformers"] = nc_arg
                if xc is not None:
                    kw["coords"] = arr3(np, xc[0], *xc[1])
                if xq is not None:
                    kw["atomic_charges"] = arr2(np, xq[0], *xq[1])
                if xw is not None:
                    kw["weights"] = np.array([fl(x) for x in xw], dtype=float)
                e = ConformerEnsemble(other, name="ens", **kw)
                self.E.append(e)
            elif k == "serialise":
                import msgpack
                from molli.chem.io import _serialize_ens_v2, _deserialize_ens_v2
                blob = msgpack.packb(_serialize_ens_v2(self.E[op[1]]), use_bin_type=True)
                e = _deserialize_ens_v2(msgpack.unpackb(blob))
                self.E.append(e)
            elif k == "append":
                self.E[op[1]].append(self.geom_py(op[2], op[3]))
            elif k == "extend":
                gs = [self.geom_py(g, op[3]) for g in op[2]]
                self.E[op[1]].extend(iter(gs) if op[4] else gs)
            elif k == "extend_ens":
                self.E[op[1]].extend(self.E[op[2]])
            elif k == "scale":
                if op[3]:
                    self.E[op[1]].scale(float(op[2]), allow_inversion=True)
                else:
                    self.E[op[1]].scale(float(op[2]))
            elif k == "invert":
                self.E[op[1]].invert()
            elif k == "translate1":
                self.E[op[1]].translate([float(x) for x in op[2]])
            elif k == "translate2":
                self.E[op[1]].translate(np.array(op[2], dtype=float).reshape(len(op[2]), 3))
            elif k == "rotate1":
                self.E[op[1]].rotate(np.array(op[2], dtype=float))
            elif k == "rotaten":
                self.E[op[1]].rotate(np.array(op[2], dtype=float).reshape(len(op[2]), 3, 3))
            elif k == "set_coords":
                self.E[op[1]].coords = arr3(np, op[2], *op[3])
            elif k == "set_charges":
                self.E[op[1]].atomic_charges = arr2(np, op[2], *op[3])
            elif k == "set_weights":
                self.E[op[1]].weights = np.array([fl(x) for x in op[2]], dtype=float)
            elif k == "c_set_coords":
                self.handle(op[1], op[2], op[3]).coords = np.array([[fl(x) for x in r] for r in op[4]], dtype=float).reshape(len(op[4]), 3)
            elif k == "c_set_coord_elem":
                self.handle(op[1], op[2], op[3]).coords[op[4]] = [fl(x) for x in op[5]]
            elif k == "c_set_charges":
                self.handle(op[1], op[2], op[3]).atomic_charges = np.array([fl(x) for x in op[4]], dtype=float)
            elif k == "c_set_charge_elem":
                self.handle(op[1], op[2], op[3]).atomic_charges[op[4]] = fl(op[5])
            elif k == "c_scale":
                self.handle(op[1], op[2], op[3]).scale(float(op[4]))
            elif k == "c_translate":
                self.handle(op[1], op[2], op[3]).translate([float(x) for x in op[4]])
            elif k == "c_transform":
                self.handle(op[1], op[2], op[3]).transform(np.array(op[4], dtype=float))
            elif k == "c_read":
                h = self.handle(op[1], op[2], op[3])
                c, q = np.asarray(h.coords), np.asarray(h.atomic_charges)
                out = ("conf", [[tok(x) for x in r] for r in c.tolist()], [tok(x) for x in q.tolist()])
            elif k == "c_store":
                import msgpack
                from molli.chem.io import _serialize_mol_v2, _deserialize_mol_v2
                blob = msgpack.packb(_serialize_mol_v2(self.handle(op[1], op[2], op[3])), use_bin_type=True)
                m = _deserialize_mol_v2(msgpack.unpackb(blob))
                out = ("conf", [[tok(x) for x in r] for r in np.asarray(m.coords).tolist()], [tok(x) for x in np.asarray(m.atomic_charges).tolist()])
            elif k == "iter_new":
                self.IT.append([iter(self.E[op[1]]), op[1], True, 0, False])
            elif k == "iter_next":
                rec = self.IT[op[1]]
                try:
                    c = next(rec[0])
                    kk = conf_index(np, c, self.E[rec[1]])
                    out = ("yield", kk)
                    if kk >= 0:
                        self.H.setdefault((rec[1], kk), []).append(c)
                except StopIteration:
                    out = ("yield", None)
            elif k == "nested":
                e = self.E[op[1]]
                out = ("pairs", [(max(conf_index(np, a, e), 0) if conf_index(np, a, e) >= 0 else 4999,
                                  conf_index(np, b, e) if conf_index(np, b, e) >= 0 else 4999) for a in e for b in e])
            elif k == "loop_dump":
                e = self.E[op[1]]
                ids = []
                for c in e:
                    ids.append(conf_index(np, c, e))
                    e.dumps_xyz()
                    e.dumps_mol2()
                out = ("ids", ids)
            elif k == "slice":
                e = self.E[op[1]]
                cs = list(e[slice(op[2], op[3], op[4])])
                ids = [conf_index(np, c, e) if isinstance(c, ml.chem.Conformer) else -1 for c in cs]
                out = ("ids", ids)
                for c, kk in zip(cs, ids):
                    if kk >= 0 and (self.cap is None or len(self.H.get((op[1], kk), ())) < self.cap):
                        self.H.setdefault((op[1], kk), []).append(c)
            elif k == "slice_translate":
                for c in self.E[op[1]][slice(op[2], op[3], op[4])]:
                    c.translate([float(x) for x in op[5]])
            elif k == "dump_xyz":
                b = parse_xyz(self.E[op[1]].dumps_xyz())
                out = ("xyz", b if b is not None else [[[BOGUS] * 3]])
            elif k == "dump_mol2":
                b = parse_mol2(self.E[op[1]].dumps_mol2())
                out = ("mol2", b if b is not None else [[([BOGUS] * 3, BOGUS)]])
            elif k == "c_dump_xyz":
                b = parse_xyz(self.handle(op[1], op[2], op[3]).dumps_xyz())
                out = ("xyz", b if b is not None else [[[BOGUS] * 3]])
            elif k == "c_dump_mol2":
                b = parse_mol2(self.handle(op[1], op[2], op[3]).dumps_mol2())
                out = ("mol2", b if b is not None else [[([BOGUS] * 3, BOGUS)]])
            else:
                raise RuntimeError("unknown op " + str(op))
        except RuntimeError:
            raise
        except Exception as ex:
            return True, type(ex).__name__, None
        return False, None, out


# ------------------------------------------------------------------ the oracle (property judged on the implementation)
RESIZE = ("append", "extend", "extend_ens")
CONF_WRITE = ("c_set_coords", "c_set_coord_elem", "c_set_charges", "c_set_charge_elem", "c_scale", "c_translate", "c_transform")
ENS_WRITE = ("scale", "invert", "translate1", "translate2", "rotate1", "rotaten", "set_coords", "set_charges", "set_weights")
SLICE_WRITE = ("slice_translate",)


def rect_of(s):
    k = s["cs"][0] if s["cs"] else -1
    return (len(s["cs"]) == 3 and s["cs"][2] == 3 and s["cs"][1] == s["na"] and s["qs"] == (k, s["na"]) and s["ws"] == (k,)
            and s["nconf"] == k)


def resolve_idx(k, n):
    if 0 <= k < n:
        return k
    if -n <= k < 0:
        return n + k
    return None


def list_slice(n, a, b, c):
    """The indices list(range(n))[a:b:c] selects, by the rule of the language reference (written out here, NOT through
    slice.indices, which is what the implementation uses): None for a zero step (ValueError)."""
    st = 1 if c is None else c
    if st == 0:
        return None
    def clip(x, lo, hi):
        if x < 0:
            x += n
        return lo if x < lo else hi if x > hi else x
    if st > 0:
        i = 0 if a is None else clip(a, 0, n)
        j = n if b is None else clip(b, 0, n)
        out = []
        while i < j:
            out.append(i)
            i += st
    else:
        i = n - 1 if a is None else clip(a, -1, n - 1)
        j = -1 if b is None else clip(b, -1, n - 1)
        out = []
        while i > j:
            out.append(i)
            i += st
    return out


def slice_forms(n, a, b, c):
    """the forms a slice belongs to, the most unusual first (the first one names the signature)"""
    f = []
    if c == 0:
        f.append("zero-step")
    if c is not None and c < 0:
        f.append("neg-step")
    if b == 0:
        f.append("zero-stop")
    if a is not None and a < 0:
        f.append("neg-start")
    if b is not None and b < 0:
        f.append("neg-stop")
    if any(x is not None and (x > n or x < -n) for x in (a, b)):
        f.append("out-of-range")
    if c is not None and abs(c) > 1:
        f.append("step>1")
    want = list_slice(n, a, b, c)
    if want == [] and n > 0:
        f.append("empty-result")
    if not f or f == ["empty-result"]:
        f.append("plain")
    return f


def slice_txt(a, b, c):
    t = lambda x: "" if x is None else str(x)
    return f"ens[{t(a)}:{t(b)}" + ("]" if c is None else f":{c}]")


def judge(w, before, after, op, raised, out, iter_expect, exn=None):
    """-> [(signature, text)].  before/after: snapshots of every ensemble."""
    np = w.np
    res = []
    k = op[0]
    # rectangularity of every ensemble
    for i, s in enumerate(after):
        if not rect_of(s):
            res.append((f"C14:rect:{k}", f"after {k}: ensemble #{i} has n_atoms={s['na']}, n_conformers={s['nconf']}, coords {s['cs']}, "
                        f"atomic_charges {s['qs']}, weights {s['ws']}"))
    # every conformer (new handles and handles created earlier) shows exactly its row, and shares its memory
    for i, e in enumerate(w.E):
        s = after[i]
        if not rect_of(s):
            continue
        kn = s["nconf"]
        objs = [(kk, e[kk]) for kk in range(kn)] + [(kk, h) for (ii, kk), hs in w.H.items() if ii == i for h in hs]
        for kk, h in objs:
            r = resolve_idx(kk, kn)
            if r is None:
                continue
            try:
                okc = same(np, h.coords, e.coords[r]) and (e.coords.size == 0 or s["na"] == 0 or np.shares_memory(h.coords, e.coords))
                okq = same(np, h.atomic_charges, e.atomic_charges[r])
                okn = h.n_atoms == s["na"]
            except Exception as ex:
                res.append(("C14:view:read-raises", f"after {k}: reading conformer {kk} of ensemble #{i} raised {type(ex).__name__}: {ex}"))
                break
            if not (okc and okq and okn):
                res.append(("C14:view:read", f"after {k}: conformer {kk} of ensemble #{i} does not show row {r} of the ensemble's arrays"))
                break
    if before is None:
        return res
    nb = len(before)
    if raised:
        if after != before:
            res.append((f"C14:failed-op-changed-state:{k}", f"{k} raised but an ensemble was modified"))
        i = op[1] if isinstance(op[1], int) else None
        if k in ("c_read", "c_store", "c_dump_xyz", "c_dump_mol2") and resolve_idx(op[2], before[op[1]]["nconf"]) is not None:
            res.append((f"C14:view:{k}:raises", f"{k} on conformer {op[2]} of ensemble #{op[1]} ({before[op[1]]['nconf']} conformers) raised"))
        if k in ("dump_xyz", "dump_mol2", "nested", "loop_dump", "serialise", "iter_new", "iter_next"):
            res.append((f"C14:{k}:raises", f"{k} on ensemble/iterator #{op[1]} raised"))
        if k in ("slice", "slice_translate") and op[4] != 0:
            kn = before[op[1]]["nconf"]
            form = slice_forms(kn, op[2], op[3], op[4])[0]
            if k == "slice":
                res.append((f"C14:slice:raises:{form}", f"{slice_txt(op[2], op[3], op[4])} on an ensemble of {kn} conformers raised {exn}; "
                            f"a list slice selects rows {list_slice(kn, op[2], op[3], op[4])}"))
            else:
                res.append((f"C14:slice:write:raises:{form}", f"for c in {slice_txt(op[2], op[3], op[4])}: c.translate({op[5]}) on an ensemble of "
                            f"{kn} conformers raised {exn} (taking the slice or writing through one of its elements); the slice selects rows "
                            f"{list_slice(kn, op[2], op[3], op[4])}, each a writable view"))
        return res
    tgt = op[1] if (k != "new" and isinstance(op[1], int)) else None
    # frame: no operation changes an ensemble other than its target; constructors / round trips add exactly one
    grown = 1 if k in ("new", "serialise") else 0
    if len(after) != nb + grown:
        res.append((f"C14:frame:{k}", f"{k}: {len(after) - nb} ensembles appeared"))
    for i in range(nb):
        if i != tgt or k in ("c_read", "c_store", "nested", "loop_dump", "slice", "dump_xyz", "dump_mol2", "c_dump_xyz", "c_dump_mol2",
                             "serialise", "iter_new", "iter_next"):
            if after[i] != before[i]:
                res.append((f"C14:frame:{k}", f"{k} (target {tgt}) changed ensemble #{i}"))
    if k in CONF_WRITE:
        b, a = before[tgt], after[tgt]
        r = resolve_idx(op[2], b["nconf"])
        arr = "q" if "charge" in k else "c"
        other = "c" if arr == "q" else "q"
        ok = r is not None and a[other] == b[other] and a["w"] == b["w"] and len(a[arr]) == len(b[arr]) \
            and all(a[arr][j] == b[arr][j] for j in range(len(b[arr])) if j != r)
        if ok:
            old = b[arr][r]
            if k == "c_set_coords":
                want = [list(x) for x in op[4]]
            elif k == "c_set_charges":
                want = list(op[4])
            elif k in ("c_set_coord_elem", "c_set_charge_elem"):
                p = resolve_idx(op[4], len(old))
                want = None if p is None else [(list(op[5]) if k == "c_set_coord_elem" else op[5]) if j == p else old[j] for j in range(len(old))]
            elif k == "c_scale":
                want = [[None if x is None else x * op[4] for x in row] for row in old]
            elif k == "c_translate":
                want = [[None if x is None else x + v for x, v in zip(row, op[4])] for row in old]
            else:
                M = op[4]
                want = [[(None if any(x is None for x in row) else sum(row[t] * M[t][j] for t in range(3))) for j in range(3)] for row in old]
            ok = want is not None and a[arr][r] == want
        if not ok:
            res.append((f"C14:view:write:{k}", f"{k} through conformer {op[2]} of ensemble #{tgt}: not (row {r} of "
                        f"{'atomic_charges' if arr == 'q' else 'coords'} now holds the written value and nothing else changed)"))
    if k in ENS_WRITE:
        b, a = before[tgt], after[tgt]
        keep = {"set_charges": ("c", "w"), "set_weights": ("c", "q")}.get(k, ("q", "w"))
        if any(a[f] != b[f] for f in keep) or a["cs"] != b["cs"] or a["qs"] != b["qs"] or a["ws"] != b["ws"]:
            res.append((f"C14:frame:{k}", f"{k} on ensemble #{tgt} changed another array or a shape"))
        want = None
        if k == "set_coords":
            want = ("c", op[2])
        elif k == "set_charges":
            want = ("q", op[2])
        elif k == "set_weights":
            want = ("w", op[2])
        elif k in ("scale", "invert"):
            f = -1 if k == "invert" else op[2]
            want = ("c", [[[None if x is None else x * f for x in row] for row in conf] for conf in b["c"]])
        elif k == "translate1":
            want = ("c", [[[None if x is None else x + v for x, v in zip(row, op[2])] for row in conf] for conf in b["c"]])
        elif k == "rotate1":
            M = op[2]
            want = ("c", [[[(None if any(x is None for x in row) else sum(row[t] * M[t][j] for t in range(3))) for j in range(3)]
                           for row in conf] for conf in b["c"]])
        if want is not None and a[want[0]] != want[1]:
            res.append((f"C14:collective:{k}", f"{k} on ensemble #{tgt}: the result is not the given array / the transformation applied "
                        "to every row of every conformer"))
    if k in RESIZE:
        b, a = before[tgt], after[tgt]
        if k == "extend_ens":
            src = before[op[2]]
            new_c, new_q, new_w = src["c"], src["q"], src["w"]
        else:
            gs = [op[2]] if k == "append" else op[2]
            new_c, new_q, new_w = [], [], []
            for g in gs:
                if g[0] == "conf":
                    sb = before[g[1]]
                    r = resolve_idx(g[2], sb["nconf"])
                    new_c.append(sb["c"][r]); new_q.append(sb["q"][r])
                else:
                    new_c.append([list(x) for x in g[1]])
                    new_q.append(list(g[2]) if g[0] == "lit" else [0] * len(g[1]))
                new_w.append(1)
        if a["c"] != b["c"] + new_c or a["q"] != b["q"] + new_q or a["w"] != b["w"] + new_w:
            res.append((f"C14:grow:{k}", f"{k} on ensemble #{tgt}: not (old conformers kept, the new ones appended with their coordinates, "
                        f"charges and weights): coords {a['cs']}, atomic_charges {a['qs']}, weights {a['ws']}"))
    if k == "new":
        src, nc_arg, xc, xq, xw = op[1], op[2], op[4], op[5], op[6]
        a = after[-1]
        ok = True
        if src[0] == "list" and xc is None and xq is None:
            want_c, want_q = [], []
            for g in src[1]:
                if g[0] == "conf":
                    sb = before[g[1]]
                    r = resolve_idx(g[2], sb["nconf"])
                    want_c.append(sb["c"][r]); want_q.append(sb["q"][r])
                else:
                    want_c.append([list(x) for x in g[1]]); want_q.append(list(g[2]))
            ok = a["c"] == want_c and a["q"] == want_q
        if src[0] == "ens":
            sb = before[src[1]]
            ok = (xc is not None or a["c"] == sb["c"]) and (xq is not None or a["q"] == sb["q"]) and (xw is not None or a["w"] == sb["w"])
            e_new, e_old = w.E[-1], w.E[src[1]]
            if np.shares_memory(e_new.coords, e_old.coords) or np.shares_memory(e_new.atomic_charges, e_old.atomic_charges) \
                    or np.shares_memory(e_new.weights, e_old.weights):
                ok = False
        if src[0] in ("none", "atoms") and nc_arg is not None and a["nconf"] != nc_arg:
            ok = False
        if xc is not None and a["c"] != [[list(r) for r in c] for c in xc[0]]:
            ok = False
        if xq is not None and a["q"] != [list(q) for q in xq[0]]:
            ok = False
        if xw is not None and a["w"] != list(xw):
            ok = False
        if not ok:
            res.append((f"C14:ctor:{src[0]}", f"ConformerEnsemble({src[0]}, ...): the new ensemble does not hold the data it was given "
                        f"(coords {a['cs']}, atomic_charges {a['qs']}, weights {a['ws']})"))
    if k == "serialise":
        if any(after[-1][f] != before[tgt][f] for f in ("na", "c", "q", "w")):
            res.append(("C14:serialise", f"io round trip of ensemble #{tgt} does not give back the same arrays"))
    if k == "iter_next":
        rec = w.IT[op[1]]
        kn = before[rec[1]]["nconf"]
        want = iter_expect if iter_expect < kn else None
        if out != ("yield", want):
            res.append(("C14:iter:order", f"next() number {iter_expect + 1} on an iterator over ensemble #{rec[1]} ({kn} conformers) gave "
                        f"{out[1]}, expected {want}"))
    if k == "nested":
        kn = before[tgt]["nconf"]
        if out != ("pairs", [(x, y) for x in range(kn) for y in range(kn)]):
            res.append(("C14:iter:nested", f"nested loops over ensemble #{tgt} ({kn} conformers) visited {out[1][:12]}"))
    if k == "loop_dump":
        kn = before[tgt]["nconf"]
        if out != ("ids", list(range(kn))):
            res.append(("C14:iter:dump-in-loop", f"a loop over ensemble #{tgt} ({kn} conformers) that dumps the ensemble inside visited {out[1]}"))
    if k in ("slice", "slice_translate"):
        kn = before[tgt]["nconf"]
        want = list_slice(kn, op[2], op[3], op[4])
        form = slice_forms(kn, op[2], op[3], op[4])[0]
        txt = slice_txt(op[2], op[3], op[4])
        if want is None:
            res.append(("C14:slice:zero-step", f"{txt} on an ensemble of {kn} conformers did not raise" +
                        (f" and gave the conformers of rows {out[1]}" if k == "slice" else "") + "; a list slice with step 0 is a ValueError"))
        elif k == "slice":
            if out != ("ids", want):
                shown = out[1] if len(out[1]) <= 12 else f"{out[1][:12]}... ({len(out[1])} conformers)"
                res.append((f"C14:slice:{form}", f"{txt} on an ensemble of {kn} conformers gave the conformers of rows {shown} "
                            f"(-1: not a view of any row); [ens[i] for i in range({kn})[{txt[4:-1]}]] are rows {want}"))
        else:
            b, a = before[tgt], after[tgt]
            v = op[5]
            exp_c = [([[None if x is None else x + d for x, d in zip(row, v)] for row in conf] if j in want else conf)
                     for j, conf in enumerate(b["c"])]
            if a["c"] != exp_c or a["q"] != b["q"] or a["w"] != b["w"]:
                moved = [j for j in range(min(len(a["c"]), len(b["c"]))) if a["c"][j] != b["c"][j]]
                res.append((f"C14:slice:write:{form}", f"for c in {txt}: c.translate({v}) on an ensemble of {kn} conformers: rows {moved} "
                            f"changed; exactly rows {sorted(want)} must be translated, once each, and nothing else"))
    if k in ("dump_xyz", "dump_mol2"):
        b = before[tgt]
        want = b["c"] if k == "dump_xyz" else [[(r, q) for r, q in zip(c, qq)] for c, qq in zip(b["c"], b["q"])]
        got = out[1] if k == "dump_xyz" else [[(r, q) for r, q in blk] for blk in out[1]]
        if got != want:
            res.append((f"C14:dump:{k}", f"{k} of ensemble #{tgt}: the text does not hold every conformer's rows in order"))
    if k in ("c_dump_xyz", "c_dump_mol2", "c_read", "c_store"):
        b = before[tgt]
        r = resolve_idx(op[2], b["nconf"])
        if r is not None:
            if k in ("c_read", "c_store"):
                ok = out == ("conf", b["c"][r], b["q"][r])
            elif k == "c_dump_xyz":
                ok = out[1] == [b["c"][r]]
            else:
                ok = [[(x, q) for x, q in blk] for blk in out[1]] == [[(x, q) for x, q in zip(b["c"][r], b["q"][r])]]
            if not ok:
                res.append((f"C14:view:{k}", f"{k} of conformer {op[2]} of ensemble #{tgt} does not show row {r}"))
    return res


# ------------------------------------------------------------------ generator
def small_vec(rng):
    return [rng.randint(-9, 9) for _ in range(3)]


PERMS = [[[0, 1, 0], [1, 0, 0], [0, 0, 1]], [[1, 0, 0], [0, 0, -1], [0, 1, 0]], [[0, 0, 1], [1, 0, 0], [0, 1, 0]],
         [[-1, 0, 0], [0, -1, 0], [0, 0, 1]], [[1, 0, 0], [0, 1, 0], [0, 0, 1]]]


def small_mat(rng):
    if rng.random() < 0.6:
        return [list(r) for r in rng.choice(PERMS)]
    return [[rng.randint(-2, 2) for _ in range(3)] for _ in range(3)]


def gen_geom(w, rng, a, allow_geom=True, p_wrong=0.08):
    """A geometry with `a` atoms (sometimes deliberately a different number)."""
    z = rng.random()
    if z < p_wrong:
        a = a + rng.choice([1, 2])
    cands = [(i, s) for i, s in enumerate(w.snapshot()) if s["na"] == a and s["nconf"] > 0 and rect_of(s)]
    z = rng.random()
    if cands and z < 0.3:
        i, s = rng.choice(cands)
        kk = rng.randrange(s["nconf"])
        if rng.random() < 0.3:
            kk -= s["nconf"]
        return ["conf", i, kk]
    if allow_geom and z < 0.4:
        return ["geom", w.fresh_rows(a)]
    return ["lit", w.fresh_rows(a), w.fresh_nums(a)]


def pick_conf(w, rng, snap, i):
    kn = snap[i]["nconf"]
    z = rng.random()
    if kn == 0 or z < 0.08:
        return rng.choice([kn, kn + 2, -kn - 1])
    kk = rng.randrange(kn)
    return kk - kn if z < 0.3 else kk


def gen_arrays(w, rng, kn, a, force=False):
    """explicit coords / atomic_charges / weights for a (kn, a) ensemble; sometimes of a wrong shape"""
    def shape():
        if rng.random() < 0.07:
            return (kn + 2, a)
        return (kn, a)
    xc = xq = xw = None
    if force or rng.random() < 0.5:
        k2, a2 = shape()
        xc = [[w.fresh_rows(a2) for _ in range(k2)], [k2, a2]]
    if rng.random() < 0.4:
        k2, a2 = shape()
        xq = [[w.fresh_nums(a2) for _ in range(k2)], [k2, a2]]
    if rng.random() < 0.4:
        xw = w.fresh_nums(shape()[0])
    return xc, xq, xw


def gen_new(w, rng, snap):
    z = rng.random()
    held = rng.random() < 0.6
    rects = [i for i, s in enumerate(snap) if rect_of(s)]
    if z < 0.30:
        a = rng.choice([0, 1, 2, 2, 3, 3])
        m = rng.randint(1, 4)
        first = gen_geom(w, rng, a, allow_geom=False, p_wrong=0.0)
        gs = [first] + [gen_geom(w, rng, a, allow_geom=(rng.random() < 0.1)) for _ in range(m - 1)]
        xc, xq, xw = gen_arrays(w, rng, len(gs), a) if rng.random() < 0.25 else (None, None, None)
        return ["new", ["list", gs], None, 0, xc, xq, xw, held]
    if z < 0.45 and rects:
        j = rng.choice(rects)
        xc, xq, xw = gen_arrays(w, rng, snap[j]["nconf"], snap[j]["na"]) if rng.random() < 0.4 else (None, None, None)
        return ["new", ["ens", j], rng.choice([None, None, 2]), 0, xc, xq, xw, held]
    if z < 0.65:
        a = rng.choice([0, 1, 2, 3, 3])
        g = gen_geom(w, rng, a, allow_geom=True, p_wrong=0.0)
        if g[0] == "conf":
            a = snap[g[1]]["na"]
        nc_arg = rng.choice([None, None, 1, 2, 3])
        if g[0] == "geom":
            nc_arg = rng.choice([None, 0, 1, 2, 3])
            kn = nc_arg or 0
        else:
            kn = nc_arg or 1
        xc, xq, xw = gen_arrays(w, rng, kn, a, force=rng.random() < 0.5)
        return ["new", ["mol", g], nc_arg, 0, xc, xq, xw, held]
    if z < 0.85:
        a = rng.choice([0, 1, 2, 3])
        nc_arg = rng.choice([None, 0, 1, 2, 3, 4])
        xc, xq, xw = gen_arrays(w, rng, nc_arg or 0, a, force=rng.random() < 0.5)
        return ["new", ["atoms", a], nc_arg, rng.choice([a, a, 0, 7]), xc, xq, xw, held]
    a = rng.choice([0, 1, 2, 3])
    nc_arg = rng.choice([None, 0, 1, 2, 3])
    xc, xq, xw = gen_arrays(w, rng, nc_arg or 0, a, force=rng.random() < 0.5)
    return ["new", ["none"], nc_arg, a, xc, xq, xw, held]


KINDS = (["new"] * 7 + ["serialise"] * 4 + ["append"] * 9 + ["extend"] * 6 + ["extend_ens"] * 4 + ["scale"] * 3 + ["invert"] * 2
         + ["translate1"] * 3 + ["translate2"] * 3 + ["rotate1"] * 3 + ["rotaten"] * 3 + ["set_coords"] * 3 + ["set_charges"] * 3
         + ["set_weights"] * 3 + ["c_set_coords"] * 6 + ["c_set_coord_elem"] * 5 + ["c_set_charges"] * 6 + ["c_set_charge_elem"] * 5
         + ["c_scale"] * 2 + ["c_translate"] * 3 + ["c_transform"] * 2 + ["c_read"] * 6 + ["c_store"] * 3 + ["iter_new"] * 6 + ["iter_next"] * 16
         + ["nested"] * 3 + ["loop_dump"] * 2 + ["slice"] * 5 + ["slice_translate"] * 3 + ["dump_xyz"] * 3 + ["dump_mol2"] * 3 + ["c_dump_xyz"] * 3 + ["c_dump_mol2"] * 3)


def gen_slice(rng, kn):
    """(start, stop, step) over every form: missing / zero / negative / exactly +-n / out-of-range bounds, steps of both
    signs and of size > 1, now and then step 0"""
    def bound():
        z = rng.random()
        if z < 0.3:
            return None
        if z < 0.6:
            return rng.choice([0, 0, -1, 1, kn, -kn, kn - 1, kn + 2, -kn - 2, -kn - 1])
        return rng.randint(-kn - 2, kn + 2)
    return bound(), bound(), rng.choice([None, None, None, 1, 2, 3, -1, -1, -2, -3, 0])


def gen_op(w, rng, snap):
    if not w.E:
        return gen_new(w, rng, snap)
    for _ in range(50):
        k = rng.choice(KINDS)
        if rng.random() < 0.3 and any(r[2] and not r[4] for r in w.IT):
            k = "iter_next"              # keep the live iterators moving: interleavings are the point
        i = rng.randrange(len(w.E))
        s = snap[i]
        kn, a = s["nconf"], s["na"]
        held = rng.random() < 0.6
        big = w.maxabs(i)
        if k == "new":
            if len(w.E) >= 4:
                continue
            return gen_new(w, rng, snap)
        if k == "serialise":
            if len(w.E) >= 4 or big >= F4:
                continue
            return ["serialise", i]
        if k in RESIZE and (kn >= 6 or (kn == 0 and a == 0)):
            continue                      # append onto the atomless empty ensemble: recorded finding, replayed separately
        if k == "append":
            return ["append", i, gen_geom(w, rng, a), held]
        if k == "extend":
            return ["extend", i, [gen_geom(w, rng, a) for _ in range(rng.randint(1, 3))], held, rng.random() < 0.5]
        if k == "extend_ens":
            same_na = [j for j, t in enumerate(snap) if t["na"] == a and t["nconf"] + kn <= 8]
            if same_na and rng.random() < 0.85:
                return ["extend_ens", i, rng.choice(same_na)]
            return ["extend_ens", i, rng.randrange(len(w.E))]
        if k == "scale":
            z = rng.random()
            if z < 0.12:
                return ["scale", i, rng.choice([0, -2, -1]), False]
            if big * 3 >= BIG:
                continue
            return ["scale", i, rng.choice([2, 3, 1, -1, -2]), True] if z < 0.5 else ["scale", i, rng.choice([2, 3, 1]), False]
        if k == "invert":
            return ["invert", i]
        if k == "translate1":
            return ["translate1", i, small_vec(rng)]
        if k == "translate2":
            m = kn if rng.random() < 0.7 else rng.choice([1, kn + 2])
            return ["translate2", i, [small_vec(rng) for _ in range(m)]]
        if k == "rotate1":
            if big * 6 >= BIG:
                continue
            return ["rotate1", i, small_mat(rng)]
        if k == "rotaten":
            if big * 6 >= BIG:
                continue
            m = kn if rng.random() < 0.7 else rng.choice([1, kn + 2])
            return ["rotaten", i, [small_mat(rng) for _ in range(m)]]
        if k == "set_coords":
            k2 = kn + 2 if rng.random() < 0.1 else kn
            return ["set_coords", i, [w.fresh_rows(a) for _ in range(k2)], [k2, a]]
        if k == "set_charges":
            k2 = kn + 2 if rng.random() < 0.1 else kn
            return ["set_charges", i, [w.fresh_nums(a) for _ in range(k2)], [k2, a]]
        if k == "set_weights":
            return ["set_weights", i, w.fresh_nums(kn + 2 if rng.random() < 0.1 else kn)]
        if k.startswith("c_"):
            kk = pick_conf(w, rng, snap, i)
            wrong = rng.random() < 0.08
            if k == "c_set_coords":
                return [k, i, kk, held, w.fresh_rows(a + 2 if wrong else a)]
            if k == "c_set_charges":
                return [k, i, kk, held, w.fresh_nums(a + 2 if wrong else a)]
            if k in ("c_set_coord_elem", "c_set_charge_elem"):
                p = rng.choice([a, -a - 1]) if (a == 0 or wrong) else rng.randrange(-a, a)
                return [k, i, kk, held, p, ([w.fresh(), w.fresh(), w.fresh()] if k == "c_set_coord_elem" else w.fresh())]
            if k == "c_scale":
                if big * 3 >= BIG:
                    continue
                return [k, i, kk, held, rng.choice([2, 3, 1, 0, -1])]
            if k == "c_translate":
                return [k, i, kk, held, small_vec(rng)]
            if k == "c_transform":
                if big * 6 >= BIG:
                    continue
                return [k, i, kk, held, small_mat(rng)]
            if k == "c_store" and big >= F4:
                continue
            return [k, i, kk, held]
        if k == "iter_new":
            if sum(1 for r in w.IT if r[2]) >= 4:
                continue
            return ["iter_new", i]
        if k == "iter_next":
            live = [t for t, r in enumerate(w.IT) if r[2] and not r[4]]
            if not live:
                done = [t for t, r in enumerate(w.IT) if r[2]]
                if done and rng.random() < 0.3:
                    return ["iter_next", rng.choice(done)]       # next() on an exhausted iterator
                continue
            return ["iter_next", rng.choice(live)]
        if k in ("nested", "loop_dump", "dump_xyz", "dump_mol2"):
            return [k, i]
        if k in ("slice", "slice_translate"):
            a_, b_, c_ = gen_slice(rng, kn)
            if k == "slice":
                return ["slice", i, a_, b_, c_]
            return ["slice_translate", i, a_, b_, c_, small_vec(rng)]
    return ["c_read", 0, 0, False]


# ------------------------------------------------------------------ running one history
def canon_op(op):
    """generator form -> JSON form (shapes made explicit for the arrays that may be empty)"""
    return json.loads(json.dumps(op))


def run_history(ops_or_gen, rng, cap=None):
    """-> (coq case term, executed ops, findings [(sig, text, step)], stats [(kind, exception name, slice forms)])"""
    w = World(cap)
    steps, done, findings, stats = [], [], [], []
    snap = []
    i = 0
    while True:
        if callable(ops_or_gen):
            op = ops_or_gen(w, i, snap)
        else:
            op = ops_or_gen[i] if i < len(ops_or_gen) else None
        if op is None:
            break
        op = canon_op(op)
        # arrays in "new"/"set_*" carry their intended shape next to the data: [data, [k, a]]
        iter_expect = w.IT[op[1]][3] if op[0] == "iter_next" and op[1] < len(w.IT) else 0
        raised, exn, out = w.execute(op)
        after = w.snapshot()
        try:
            verdicts = judge(w, snap, after, op, raised, out, iter_expect, exn)
        except Exception as ex:
            # the implementation did something of a form the oracle's bookkeeping cannot follow (an implementation that
            # keeps the property never gets here): reported with the history instead of stopping the whole run
            verdicts = [(f"C14:unjudgeable:{op[0]}:{type(ex).__name__}", f"after {op[0]} {json.dumps(op[1:])[:200]} (raised={raised}, returned "
                         f"{json.dumps(out)[:200]}) the oracle could not evaluate the property: {type(ex).__name__}: {ex}")]
        for s, t in verdicts:
            findings.append((s, t, i))
        if not raised:
            if op[0] in RESIZE:
                for r in w.IT:
                    if r[1] == op[1]:
                        r[2] = False                 # iterators over a resized ensemble are not used again
            if op[0] == "iter_next":
                rec = w.IT[op[1]]
                if out[1] is None:
                    rec[4] = True
                else:
                    rec[3] += 1
        steps.append(f"({op_term(strip_shapes(op))}, mkObs {cq_bool(raised)} {out_term(out)} {cq_list(ens_t(s) for s in after)})")
        done.append(op)
        forms = ()
        if op[0] in ("slice", "slice_translate") and op[1] < len(snap):
            forms = slice_forms(snap[op[1]]["nconf"], op[2], op[3], op[4])
        stats.append((op[0], exn, forms))
        snap = after
        i += 1
    return cq_list(steps), done, findings, stats


def strip_shapes(op):
    """the Coq term only needs the data; the python call also needs the intended shape of possibly-empty arrays"""
    if op[0] == "new":
        op = list(op)
        for j in (4, 5):
            if op[j] is not None:
                op[j] = op[j][0]
        return op
    return op


# ------------------------------------------------------------------ recorded findings: witnesses replayed on every run
def confirm_known():
    import numpy as np
    import molli as ml
    out = []
    mol = ml.Molecule.load_mol2(str(ml.files.dmf_mol2))
    try:
        e = ml.ConformerEnsemble(mol, n_conformers=0)
        if e.n_conformers != 0:
            out.append((K_CTOR0, f"ConformerEnsemble(dmf, n_conformers=0) has {e.n_conformers} conformer(s), coords {e.coords.shape}",
                        {"kind": "known", "which": "ctor0"}))
    except Exception:
        pass
    try:
        e = ml.ConformerEnsemble()
        e.append(mol)
        if e.coords.shape[1] != e.n_atoms:
            out.append((K_EMPTY, f"ConformerEnsemble().append(dmf): n_atoms={e.n_atoms} but coords {e.coords.shape}, atomic_charges "
                        f"{e.atomic_charges.shape}; the coordinates alias the molecule's array: {np.shares_memory(e.coords, mol.coords)}",
                        {"kind": "known", "which": "empty"}))
    except Exception:
        pass
    try:
        e = ml.ConformerEnsemble.load_mol2(str(ml.files.pentane_confs_mol2))
        try:
            d = ml.ConformerEnsemble.deserialize(e.serialize())
            bad = d.coords.shape != e.coords.shape
            what = f"gave coords {d.coords.shape}"
        except Exception as ex:
            bad, what = True, f"raised {type(ex).__name__}: {ex}"
        if bad:
            out.append((K_LEGACY, f"ConformerEnsemble.deserialize(pentane_confs.serialize()) {what}", {"kind": "known", "which": "legacy"}))
    except Exception:
        pass
    return out


# ------------------------------------------------------------------ directed histories (run first on every run)
def directed():
    r = lambda *v: list(v)
    A = [["lit", [[1, 2, 3], [4, 5, 6]], [7, 8]], ["lit", [[11, 12, 13], [14, 15, 16]], [17, 18]]]
    return [
        # the former findings 16 / 17 / 38 as regression histories
        [["new", ["list", A], None, 0, None, None, None, False], ["append", 0, ["lit", [[21, 22, 23], [24, 25, 26]], [27, 28]], False],
         ["dump_mol2", 0], ["c_dump_mol2", 0, 2, False], ["serialise", 0], ["extend", 0, [["geom", [[31, 32, 33], [34, 35, 36]]]], False, True],
         ["extend_ens", 0, 1], ["nested", 0], ["loop_dump", 0], ["c_set_charges", 0, -1, False, [41, 42]], ["c_read", 0, 6, False]],
        [["new", ["mol", ["lit", [[1, 2, 3]], [4]]], 3, 0, None, None, None, False], ["iter_new", 0], ["iter_next", 0], ["iter_new", 0],
         ["iter_next", 1], ["iter_next", 0], ["iter_next", 1], ["iter_next", 1], ["iter_next", 1], ["iter_next", 0], ["iter_next", 0]],
        [["new", ["none"], 2, 2, None, None, None, False], ["c_set_coords", 0, 1, False, [[1, 2, 3], [4, 5, 6]]], ["c_read", 0, 1, True],
         ["set_coords", 0, [[[7, 8, 9], [10, 11, 12]], [[13, 14, 15], [16, 17, 18]]], [2, 2]], ["c_read", 0, 1, True],
         ["slice", 0, None, None, -1], ["c_transform", 0, 0, True, [[0, 1, 0], [1, 0, 0], [0, 0, 1]]], ["rotaten", 0, [PERMS[1], PERMS[2]]]],
        # the unusual-but-legal slice forms on six conformers, reading and writing through the elements
        [["new", ["mol", ["lit", [[1, 2, 3]], [4]]], 6, 0, [[[[10 * j + 1, 10 * j + 2, 10 * j + 3]] for j in range(6)], [6, 1]],
          [[[100 + j] for j in range(6)], [6, 1]], None, False]]
        + [["slice", 0, a, b, c] for a, b, c in [(None, 0, None), (0, 0, None), (2, 0, None), (-2, None, None), (None, -1, None), (-4, -1, None),
                                                 (None, None, -1), (4, 1, -1), (-1, None, -2), (-100, 2, None), (1, 100, 2), (None, None, 0)]]
        + [["slice_translate", 0, -2, None, None, [1, 1, 1]], ["slice_translate", 0, None, 0, None, [2, 2, 2]],
           ["slice_translate", 0, None, None, -2, [3, 3, 3]], ["slice_translate", 0, None, -4, None, [4, 4, 4]], ["c_read", 0, -2, True],
           ["dump_xyz", 0]],
    ]


def sweep_plans(nmax, every):
    """Every slice with start, stop in {None} u [-n-2, n+2] and step in {None, +-1, +-2, +-3, 0} of an ensemble of n = 0..nmax
    one-atom conformers, cut into histories of 24 slices; every `every`-th slice is also written through."""
    plans = []
    for n in range(nmax + 1):
        if n == 0:
            first = ["new", ["none"], 0, 1, None, None, None, False]
        else:
            first = ["new", ["list", [["lit", [[10 * j + 1, 10 * j + 2, 10 * j + 3]], [100 + j]] for j in range(n)]], None, 0, None, None, None, False]
        B = [None] + list(range(-n - 2, n + 3))
        sl = [(a, b, c) for c in (None, 1, 2, 3, -1, -2, -3, 0) for a in B for b in B]
        for t in range(0, len(sl), 24):
            ops = [first]
            for u, (a, b, c) in enumerate(sl[t:t + 24]):
                ops.append(["slice", 0, a, b, c])
                if (t + u) % every == 0:
                    ops.append(["slice_translate", 0, a, b, c, [1 + (t + u) % 5, 2, 3]])
            plans.append(ops)
    return plans


# ------------------------------------------------------------------ DETACHED views
# A conformer is a full molecule view of its row ALSO when it is the only thing the program still holds: restored from a pickle
# (alone, as a slice, as an element of a pickled ensemble), deep-copied, shallow-copied, handed out by a helper whose ensemble was a
# local (by index, slice, iteration, next(iter())), left behind by `del ens`, taken from an ensemble that was just loaded or
# deserialised.  Every other family keeps each ensemble in World.E for its snapshots -- here NOTHING but the conformers is kept
# (gc.collect() before use), and then they are used as molecules: read, written through, dumped, stored, cloned, serialised again.
# Where the route copies (pickle, deepcopy) the original is kept and must not move.
DETACH_ROUTES = ["pickle", "pickle", "pickle-slice", "pickle-slice", "deepcopy", "deepcopy", "copy-then-del-owner", "helper-index", "helper-index",
                 "helper-slice", "helper-list", "helper-next", "del-owner", "pickle-ensemble-index", "io-roundtrip-index", "loads-mol2-index",
                 "conformer-of-conformer-ensemble"]
DETACH_USES = ["read", "translate", "set_coords", "set_charge_elem", "scale", "dump_xyz", "dump_mol2", "store", "clone", "pickle-again", "attrs"]
DETACH_COPIES = ("pickle", "pickle-slice", "deepcopy", "pickle-ensemble-index")


def gen_detached(rng, j):
    a, n = rng.choice([1, 2, 2, 3]), rng.randint(1, 4)
    base = 1000 * (j % 60) + 17
    rows = [[[base + 100 * k + 10 * i + x for x in (1, 2, 3)] for i in range(a)] for k in range(n)]
    chg = [[base + 100 * k + 10 * i + 7 for i in range(a)] for k in range(n)]
    route = DETACH_ROUTES[j % len(DETACH_ROUTES)] if j < 3 * len(DETACH_ROUTES) else rng.choice(DETACH_ROUTES)
    if route in ("pickle-slice", "helper-slice"):
        lo = rng.randrange(n)
        pick = [lo, rng.randint(lo + 1, n), rng.choice([None, 1, 1, 2])]
        if rng.random() < 0.2:
            pick = [None, None, -1]
    elif route == "helper-list":
        pick = None
    elif route == "helper-next":
        pick = 0
    else:
        pick = rng.randrange(n) - (n if rng.random() < 0.25 else 0)
    uses = []
    for _ in range(rng.randint(2, 5)):
        u = rng.choice(DETACH_USES)
        if u == "translate":
            uses.append([u, small_vec(rng)])
        elif u == "set_coords":
            uses.append([u, [[base + 50000 + 10 * i + x + 1000 * len(uses) for x in (1, 2, 3)] for i in range(a)]])
        elif u == "set_charge_elem":
            uses.append([u, rng.randrange(a), base + 70000 + len(uses)])
        elif u == "scale":
            if not any(x[0] == "scale" for x in uses):              # once: the numbers stay exact in the '>f4' buffers of the codec
                uses.append([u, rng.choice([2, 3, 5])])
        else:
            uses.append([u])
    uses.append(["read"])
    return {"na": a, "rows": rows, "charges": chg, "route": route, "pick": pick, "uses": uses}


def _detached_build(spec):
    import numpy as np
    import molli as ml
    from molli.chem import Atom
    ms = []
    for r, q in zip(spec["rows"], spec["charges"]):
        m = ml.Molecule([Atom(ELS[i % len(ELS)]) for i in range(spec["na"])], n_atoms=spec["na"], name="m",
                        coords=np.array(r, dtype=float).reshape(spec["na"], 3), atomic_charges=np.array(q, dtype=float))
        if spec["na"] >= 2:
            m.connect(0, 1)
        ms.append(m)
    return ml.ConformerEnsemble(ms, name="ens")


def _detached_obtain(spec):
    """-> (conformers, their row numbers, the original ensemble when the route copies, else None).  Whatever else was built here
    is a local and gone when this returns."""
    import pickle, copy
    import molli as ml
    route, pick, n = spec["route"], spec["pick"], len(spec["rows"])
    e = _detached_build(spec)
    if route in ("pickle-slice", "helper-slice"):
        sl = slice(*pick)
        ks = list(range(n))[sl]
        cs = e[sl]
        if route == "pickle-slice":
            return list(pickle.loads(pickle.dumps(cs))), ks, e
        return list(cs), ks, None
    if route == "helper-list":
        return list(e), list(range(n)), None
    if route == "helper-next":
        return [next(iter(e))], [0], None
    k = pick % n
    if route == "pickle":
        return [pickle.loads(pickle.dumps(e[pick]))], [k], e
    if route == "deepcopy":
        return [copy.deepcopy(e[pick])], [k], e
    if route == "copy-then-del-owner":
        c = copy.copy(e[pick])
        del e
        return [c], [k], None
    if route == "del-owner":
        c = e[pick]
        del e
        return [c], [k], None
    if route == "pickle-ensemble-index":
        return [pickle.loads(pickle.dumps(e))[pick]], [k], e
    if route == "io-roundtrip-index":
        import msgpack
        from molli.chem.io import _serialize_ens_v2, _deserialize_ens_v2
        return [_deserialize_ens_v2(msgpack.unpackb(msgpack.packb(_serialize_ens_v2(e), use_bin_type=True)))[pick]], [k], None
    if route == "loads-mol2-index":
        return [ml.ConformerEnsemble.loads_mol2(e.dumps_mol2())[pick]], [k], None
    if route == "conformer-of-conformer-ensemble":
        return [ml.ConformerEnsemble([e[j] for j in range(n)], name="ens2")[pick]], [k], None
    return [e[pick]], [k], None                                  # helper-index


def run_detached(spec):
    """-> (findings [(sig, text)], observations for the Coq case: per use, per conformer (rows, charges) as read, or None)."""
    import gc, pickle
    import numpy as np
    import molli as ml
    route = spec["route"]
    tag = f"C14:detached:{route}"
    try:
        cs, ks, orig = _detached_obtain(spec)
    except Exception as ex:
        return [(f"{tag}:obtain:raises:{type(ex).__name__}", f"obtaining conformer(s) {spec['pick']} by route {route!r} raised {type(ex).__name__}: {ex}")], None
    gc.collect()
    exp = [([list(r) for r in spec["rows"][k]], list(spec["charges"][k])) for k in ks]
    orig_snap = (np.array(orig.coords, copy=True), np.array(orig.atomic_charges, copy=True)) if orig is not None else None
    obs = []
    if not all(isinstance(c, ml.chem.Conformer) for c in cs) or len(cs) != len(ks):
        return [(f"{tag}:obtain:not-conformers", f"route {route!r} gave {[type(c).__name__ for c in cs]} for rows {ks}")], None
    for un, u in enumerate(spec["uses"]):
        t = un % len(cs) if cs else 0
        for j, c in enumerate(cs):
            if u[0] not in ("read", "dump_xyz", "dump_mol2", "store", "clone", "attrs") and j != t:
                continue                                            # a write goes through ONE of the conformers; the others must not move
            what = f"{u[0]} through the conformer of row {ks[j]} obtained by {route!r} ({spec['pick']}) of an ensemble of {len(spec['rows'])} x {spec['na']}, its ensemble referenced by nothing else"
            try:
                rows, chg = exp[j]
                if u[0] == "translate":
                    c.translate([float(x) for x in u[1]])
                    exp[j] = ([[x + v for x, v in zip(r, u[1])] for r in rows], chg)
                elif u[0] == "set_coords":
                    c.coords = np.array(u[1], dtype=float).reshape(spec["na"], 3)
                    exp[j] = ([list(r) for r in u[1]], chg)
                elif u[0] == "set_charge_elem":
                    c.atomic_charges[u[1]] = float(u[2])
                    exp[j] = (rows, [u[2] if i == u[1] else q for i, q in enumerate(chg)])
                elif u[0] == "scale":
                    c.scale(float(u[1]))
                    exp[j] = ([[x * u[1] for x in r] for r in rows], chg)
                elif u[0] == "dump_xyz":
                    if parse_xyz(c.dumps_xyz()) != [rows]:
                        return [(f"{tag}:dump_xyz", f"{what}: the text does not hold the row")], obs
                elif u[0] == "dump_mol2":
                    b = parse_mol2(c.dumps_mol2())
                    if b is None or [[(list(x), q) for x, q in blk] for blk in b] != [[(list(x), q) for x, q in zip(rows, chg)]]:
                        return [(f"{tag}:dump_mol2", f"{what}: the text does not hold the row and its charges")], obs
                elif u[0] == "store":
                    import msgpack
                    from molli.chem.io import _serialize_mol_v2, _deserialize_mol_v2
                    m = _deserialize_mol_v2(msgpack.unpackb(msgpack.packb(_serialize_mol_v2(c), use_bin_type=True)))
                    if [[tok(x) for x in r] for r in np.asarray(m.coords).tolist()] != rows or [tok(x) for x in np.asarray(m.atomic_charges).tolist()] != chg:
                        return [(f"{tag}:store", f"{what}: the molecule codec does not give the row back")], obs
                elif u[0] == "clone":
                    m = ml.Molecule(c)
                    if [[tok(x) for x in r] for r in np.asarray(m.coords).tolist()] != rows or m.n_atoms != spec["na"]:
                        return [(f"{tag}:clone", f"{what}: Molecule(conformer) does not hold the row")], obs
                elif u[0] == "pickle-again" and j == t:
                    cs[j] = c = pickle.loads(pickle.dumps(c))
                    gc.collect()
                elif u[0] == "attrs":
                    if (c.n_atoms, c.n_bonds, len(c.atoms), len(c.bonds)) != (spec["na"], 1 if spec["na"] >= 2 else 0, spec["na"], 1 if spec["na"] >= 2 else 0) \
                            or not isinstance(c.name, str) or [a.element.symbol for a in c.atoms] != [ELS[i % len(ELS)] for i in range(spec["na"])]:
                        return [(f"{tag}:attrs", f"{what}: n_atoms / n_bonds / atoms / bonds / name are not the ensemble's")], obs
            except Exception as ex:
                return [(f"{tag}:unusable:{type(ex).__name__}", f"{what}: raised {type(ex).__name__}: {ex}")], obs
        # after every use: every conformer shows exactly its (expected) row; the original, where there is one, has not moved
        seen = []
        for j, c in enumerate(cs):
            try:
                got = ([[tok(x) for x in r] for r in np.asarray(c.coords).tolist()], [tok(x) for x in np.asarray(c.atomic_charges).tolist()])
            except Exception as ex:
                return [(f"{tag}:unusable:{type(ex).__name__}", f"after {u[0]}: reading the conformer of row {ks[j]} obtained by {route!r} "
                         f"({spec['pick']}), its ensemble referenced by nothing else, raised {type(ex).__name__}: {ex}")], obs
            seen.append(got)
            if got != (exp[j][0], exp[j][1]):
                return [(f"{tag}:view:{u[0]}", f"after {u[0]} (use {un}) the conformer of row {ks[j]} obtained by {route!r} ({spec['pick']}) shows "
                         f"{got[0][:2]} / {got[1][:2]}, expected {exp[j][0][:2]} / {exp[j][1][:2]} (written value in its own row, other conformers untouched)")], obs
        obs.append(seen)
        if orig is not None and not (same(np, orig.coords, orig_snap[0]) and same(np, orig.atomic_charges, orig_snap[1])):
            return [(f"{tag}:original-moved:{u[0]}", f"{u[0]} through a conformer restored by {route!r} changed the ensemble it was copied from")], obs
    return [], obs


def detached_term(spec, obs):
    """Coq case (Model/Ens.v dcase): the ensemble, the rows picked, the uses, and what every conformer showed after every use."""
    n = len(spec["rows"])
    if spec["route"] in ("pickle-slice", "helper-slice"):
        ks = list(range(n))[slice(*spec["pick"])]
    elif spec["route"] == "helper-list":
        ks = list(range(n))
    else:
        ks = [spec["pick"] % n]
    e = f"(mkEns {nat(spec['na'])} {cq_list(rows_t(c) for c in spec['rows'])} {cq_list(nums_t(q) for q in spec['charges'])} {nums_t([1] * n)})"
    us = []
    for u in spec["uses"]:
        if u[0] == "translate":
            us.append(f"(DTranslate {vec_t(u[1])})")
        elif u[0] == "set_coords":
            us.append(f"(DSetCoords {rows_t(u[1])})")
        elif u[0] == "set_charge_elem":
            us.append(f"(DSetChargeElem {zt(u[1])} ({num_t(u[2])}))")
        elif u[0] == "scale":
            us.append(f"(DScale {zt(u[1])})")
        else:
            us.append("DRead")
    ob = cq_list(cq_list(f"({rows_t(c)}, {nums_t(q)})" for c, q in seen) for seen in obs)
    return f"({e}, {cq_list(zt(k) for k in ks)}, {cq_list(us)}, {ob})"


# ------------------------------------------------------------------ entry points
def run(ctx, rep):
    rep.rule = ("histories of calls on ConformerEnsemble / Conformer starting from nothing: 4 directed regression histories; the slice sweep "
                "(EVERY slice with start, stop in {None} u [-n-2, n+2] and step in {None, +-1, +-2, +-3, 0} of ensembles of n = 0..4 "
                "(thorough: 0..6) conformers, 24 per history, every 4th (2nd) also written through); then random "
                "histories of 6..20 calls over the 33-letter alphabet of the module docstring (up to 4 ensembles of 0..3 atoms and 0..8 "
                "conformers, any number of interleaved iterators, conformer handles reused long after they were created); after every call: "
                "raised?, return value, and every ensemble (n_atoms, coords, atomic_charges, weights) are recorded and replayed by the Coq "
                "model; a history is non-trivial when at least one ensemble was resized or written and one value was read back through a "
                "conformer, an iterator, a slice or a dump; distinct by operation list; DETACHED family: 300 (1 200) ensembles of 1..4 x 1..3 built "
                "inside a helper, one conformer / a slice / all conformers obtained by 14 routes that leave the ensemble referenced by nothing "
                "else (pickle of a conformer, of a slice, of the ensemble; deepcopy; copy then del; helper index / slice / list / next(iter); "
                "del; io round trip, loads_mol2, ensemble of conformers), gc.collect(), then 3..6 uses (read, translate, set coords, set one "
                "charge, scale, dump xyz / mol2, molecule codec, Molecule(c), pickle again, atoms / bonds / name), every conformer read after "
                "every use, the copied-from ensemble compared; replayed by check_detached of the Coq model")
    rep.trusted += ["harness/c14.py: driver, integer tokens <-> doubles, parsing the dumped xyz / mol2 text back into numbers, Coq literal emission",
                    "CPython 3.12 + numpy executing molli/chem/ensemble.py (and the Molecule / CartesianGeometry methods a Conformer inherits)",
                    "numpy semantics modelled, not verified: np.append on axis 0 = list append, a[k] = row view, a[:] = full-shape array = "
                    "replace, elementwise * and + and @ on integer-valued doubles below 2**40 are exact, NaN propagates; '>f4' buffers are "
                    "exact for integers below 2**24; msgpack round trip of the io tuple is the identity"]
    rep.assumptions += ["whole-array assignments use full-shape arrays or clearly wrong shapes (numpy broadcasting of size-1 axes is outside the alphabet)",
                        "extend([]) and append onto the atomless empty ensemble ConformerEnsemble() are outside the alphabet (the latter is a recorded finding)",
                        "ConformerEnsemble(molecule, n_conformers=0) is outside the alphabet (recorded finding: yields 1 conformer)",
                        "an iterator is not advanced after its ensemble was resized (the theorem is stated for histories that do not resize it)",
                        "structure edits through a Conformer (add_atom / del_atom) belong to C05; aliasing after copy/pickle to C06; text formats to C07/C08; "
                        "the binary layout to C01 -- here only: the dumped / stored numbers are those of row i"]
    import warnings
    warnings.simplefilter("ignore")
    ok, outp, where = vlib.build_props(ctx, rep, "C14")
    rng = ctx.rng
    # the oracle's own list-slice rule agrees with CPython's on every slice of the sweep's range (and beyond)
    rule_ok = all(list_slice(n, a, b, c) == list(range(n))[slice(a, b, c)]
                  for n in range(9) for c in (None, 1, 2, 3, 4, -1, -2, -3, -4)
                  for a in [None] + list(range(-n - 3, n + 4)) for b in [None] + list(range(-n - 3, n + 4)))
    rep.oblig("oracle_list_slice_rule_is_cpythons", rule_ok)
    if not rule_ok:
        raise RuntimeError("harness/c14.py: list_slice disagrees with CPython's list slicing")
    n_rand = 12000 if ctx.thorough else 1500
    cases, meta, found = [], [], False
    sweeps = sweep_plans(6 if ctx.thorough else 4, 2 if ctx.thorough else 4)
    plans = ([("directed", h) for h in directed()] + [("sweep", h) for h in sweeps]
             + [("random", rng.randint(6, 20)) for _ in range(n_rand)])
    for mode, payload in plans:
        if mode == "random":
            L = payload
            gen = (lambda w, i, snap, L=L: gen_op(w, rng, snap) if i < L else None)
        else:
            gen = payload
        rep.count("family:" + mode)
        case, done, findings, stats = run_history(gen, rng, cap=(2 if mode == "sweep" else None))
        cases.append(case)
        meta.append(done)
        wrote = any(e is None and k in RESIZE + CONF_WRITE + ENS_WRITE + SLICE_WRITE for k, e, _ in stats)
        read = any(e is None and k in ("c_read", "c_store", "iter_next", "nested", "loop_dump", "slice", "dump_xyz", "dump_mol2", "c_dump_xyz",
                                       "c_dump_mol2", "serialise") for k, e, _ in stats)
        rep.case(key=json.dumps(done) if (wrote and read) else None, sample={"ops": [o[:3] for o in done[:5]]} if mode == "random" else None)
        for k, e, forms in stats:
            rep.count(f"op:{k}:" + ("ok" if e is None else e))
            for f in forms:
                rep.count(f"{k}-form:{f}")
        seen = set()
        for sig, text, stepi in findings:
            if sig in seen:
                continue
            seen.add(sig)
            found = True
            rep.violate(sig, text + f" [step {stepi}]", {"kind": "history", "ops": done[:stepi + 1]})
    # --- DETACHED views: conformers that outlive every other reference to their ensemble
    dcases, dmeta, dseen = [], [], set()
    for j in range(1200 if ctx.thorough else 300):
        spec = gen_detached(rng, j)
        fnd, obs = run_detached(spec)
        rep.count("family:detached")
        rep.count(f"detached:route={spec['route']}")
        for u in spec["uses"]:
            rep.count(f"detached:use={u[0]}")
        rep.case(key="detached:" + json.dumps(spec, sort_keys=True), sample={"route": spec["route"], "pick": spec["pick"], "uses": [u[0] for u in spec["uses"]]})
        for sig, text in fnd:
            found = True
            if sig not in dseen and len(dseen) < 12:             # one replayable witness per signature
                dseen.add(sig)
                rep.violate(sig, text, {"kind": "detached", "spec": spec})
        if obs is not None and len(obs) == len(spec["uses"]):
            dcases.append(detached_term(spec, obs))
            dmeta.append(spec)
    dbad = vlib.run_shards(ctx, rep, "c14d", HEADER, "check_detached", dcases, shard=150, timeout=600, case_type="dcase")
    if dbad is None:
        vlib.broken_obligation(rep, "corr_c14_detached", "a correspondence shard did not compile: " + json.dumps(rep.extra.get("shard_errors", ""))[-1500:], found)
    elif dbad:
        vlib.broken_obligation(rep, "corr_c14_detached", f"{len(dbad)} detached-view cases on which model and implementation disagree, first: "
                               + json.dumps(dmeta[dbad[0]])[:1200], found)
    known = confirm_known()
    for sig, text, rp in known:
        rep.violate(sig, text, rp)

    bad = vlib.run_shards(ctx, rep, "c14", HEADER, "check_case", cases, shard=(100 if ctx.thorough else 30), timeout=900, case_type="case")
    if bad is None:
        vlib.broken_obligation(rep, "corr_c14", "a correspondence shard did not compile: " + json.dumps(rep.extra.get("shard_errors", ""))[-1500:], found)
    elif bad:
        rep.extra["mismatching_cases"] = [meta[i] for i in bad[:3]]
        if not found:
            # every one of these histories has been judged by the oracle already; widen: every prefix, then read every conformer
            for i in bad[:20]:
                ops = meta[i]
                extra = []
                w_ens = sum(1 for o in ops if o[0] in ("new", "serialise"))
                for j in range(w_ens):
                    extra += [["dump_mol2", j], ["nested", j], ["serialise", j]]
                _, done2, findings, _ = run_history(ops + extra, rng)
                for sig, text, stepi in findings:
                    found = True
                    rep.violate(sig, text, {"kind": "history", "ops": done2[:stepi + 1]})
        vlib.broken_obligation(rep, "corr_c14", f"{len(bad)} histories on which model and implementation disagree, first: "
                               + json.dumps(meta[bad[0]])[:1500], found)
    if not ok:
        vlib.broken_obligation(rep, "C14_theorems", f"{where}\n{outp[-1500:]}", found)
    return tuple(sig for sig, _, _ in known)


def replay(ctx, data):
    out = []
    if data.get("kind") == "known":
        for sig, text, rp in confirm_known():
            if rp["which"] == data.get("which"):
                out.append(vlib.Violation(sig, text))
    elif data.get("kind") == "detached":
        import warnings
        warnings.simplefilter("ignore")
        for sig, text in run_detached(data["spec"])[0]:
            out.append(vlib.Violation(sig, text))
    elif data.get("kind") == "history":
        _, _, findings, _ = run_history(data["ops"], ctx.rng)
        seen = set()
        for sig, text, stepi in findings:
            if sig not in seen:
                seen.add(sig)
                out.append(vlib.Violation(sig, text + f" [step {stepi}]"))
    return out
