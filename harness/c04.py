"""C04 -- concurrent library sessions are serialised and survive failing sessions."""
import os, json
import vlib, c04_skel


def run(ctx, rep):
    rep.rule = ("(1) every fault vector of reading()/writing() on the real context managers (2^7 + 2^5, exhaustive); "
                "(2) stepped schedules of sessions over real OS processes compared with the lock/process transition system; "
                "non-trivial = at least one step raises / at least one acquire is refused")
    rep.trusted += ["harness/c04_skel.py (AST walker for reading()/writing(); recording wrappers; lock probe in a helper process)",
                    "fasteners.InterProcessReaderWriterLock / fcntl semantics are ASSUMED (writer excludes all, readers exclude writers): "
                    "the transition system encodes them, the multi-process runs validate them"]
    rows, refusal = c04_skel.gen(ctx)
    for kind in rows:
        for S, tr, exn, free, closed in rows[kind]:
            rep.case(key=f"{kind}:{sorted(S)}" if S else None, sample={"kind": kind, "faults": S, "trace": tr, "exn": exn} if len(S) == 2 and len(rep.samples) < 3 else None)
            rep.count(f"{kind}:faults={len(S)}")
            if not free:
                rep.violate(f"C04:{kind}:lock-not-released:" + "+".join(sorted(S)),
                            f"{kind}() with {sorted(S)} raising: another process cannot take the lock afterwards",
                            {"kind": "vector", "session": kind, "faults": sorted(S)})
            if not closed:
                rep.violate(f"C04:{kind}:file-left-open:" + "+".join(sorted(S)),
                            f"{kind}() with {sorted(S)} raising leaves the library file open",
                            {"kind": "vector", "session": kind, "faults": sorted(S)})
    rep.exhaustive = True
    ok, out, where = vlib.build_props(ctx, rep, "C04")
    if not ok:
        vlib.broken_obligation(rep, "Props/C04.v", (f"AST extractor refused: {refusal}\n" if refusal else "") + f"{where}\n{out[-1500:]}",
                               bool(rep.violations))


def replay(ctx, data):
    out = []
    if data.get("kind") == "vector":
        probe = c04_skel.Probe(ctx)
        try:
            tr, exn, free, closed = c04_skel.run_vector(os.path.join(ctx.sub("c04"), "rp.ukv"), data["session"], set(data["faults"]), probe)
        finally:
            probe.close()
        print("trace:", tr, "exn:", exn, "lock free:", free, "file closed:", closed)
        if not free:
            out.append(vlib.Violation("C04:lock-not-released", "lock still held after the session"))
        if not closed:
            out.append(vlib.Violation("C04:file-left-open", "file still open after the session"))
    return out
