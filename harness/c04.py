"""C04 -- concurrent library sessions are serialised and survive failing sessions."""
import os, json
import vlib, c04_skel, c04_mp


def run(ctx, rep):
    rep.rule = ("(1) every fault vector of reading()/writing() on the real context managers (2^7 + 2^5, exhaustive); "
                "(2) stepped schedules of sessions over real OS processes compared with the lock/process transition system; "
                "non-trivial = at least one step raises / at least one acquire is refused")
    rep.trusted += ["harness/c04_skel.py (AST walker for reading()/writing(); recording wrappers; lock probe in a helper process)",
                    "fasteners.InterProcessReaderWriterLock / fcntl semantics are ASSUMED (writer excludes all, readers exclude writers): "
                    "the transition system encodes them, the multi-process runs validate them"]
    rows, refusal = c04_skel.gen(ctx)
    for ex, ov, ro, evs in rows.pop("ctor"):
        rep.case(key=f"ctor:{ex}:{ov}:{ro}")
        rep.count("ctor:" + ("creates" if "create" in evs else "opens-existing"))
    for kind in rows:
        for S, tr, exn, free, closed in rows[kind]:
            rep.case(key=f"{kind}:{sorted(S)}" if S else None, sample={"kind": kind, "faults": S, "trace": tr, "exn": exn} if len(S) == 2 and len(rep.samples) < 3 else None)
            rep.count(f"{kind}:faults={len(S)}")
            if not free:
                rep.violate(f"C04:{kind}:lock-not-released:" + "+".join(sorted(S)),
                            f"{kind}() with {sorted(S)} raising: another process cannot take the lock afterwards",
                            {"kind": "vector", "session": kind, "faults": sorted(S)})
            if not closed:
                rep.violate(f"C04:{kind}:file-left-open:" + "+".join(sorted(S)),
                            f"{kind}() with {sorted(S)} raising leaves the library file open",
                            {"kind": "vector", "session": kind, "faults": sorted(S)})
    ok, out, where = vlib.build_props(ctx, rep, "C04")
    import ukv_common as _U
    tstatus, tok, tout, twhere = _U.code_tie(ctx, rep)      # the translated begin_read/begin_write/end_*/flush/put/get and UKVFile methods = the model
    # ---- real processes
    nproc = 3 if ctx.thorough else 2
    W = c04_mp.Workers(ctx, max(nproc, 6 if ctx.thorough else 4))
    try:
        cases, meta, scheds = [], [], []
        path0 = os.path.join(ctx.sub("c04"), "s")
        for n in range(1200 if ctx.thorough else 120):
            sched = c04_mp.gen_schedule(ctx.rng, nproc)
            case, labels, outs = c04_mp.run_schedule(W, f"{path0}{n}.ukv", sched, nproc)
            cases.append(case); meta.append((labels, outs)); scheds.append(sched)
            refused = any(o == "Refused" for o in outs)
            rep.case(key="; ".join(labels) if refused or any("RErr" in o for o in outs) else None,
                     sample={"labels": labels[:10], "outcomes": outs[:10]} if n in (3, 17) else None)
            rep.count("schedule:" + ("with-refused-acquire" if refused else "no-contention"))
            for o in outs:
                if "ROther" in o:
                    rep.violate("C04:stepped:unexpected-exception", f"schedule {labels}: {o}", {"kind": "stepped", "labels": labels})
        bad = vlib.run_shards(ctx, rep, "c04", c04_mp.HEADER, "check_mcase", cases, shard=100, case_type="mcase")
        if bad is None:
            vlib.broken_obligation(rep, "corr_c04", "a correspondence shard did not compile: " + str(rep.extra.get("shard_errors"))[-1500:], bool(rep.violations))
        elif bad:
            # a loaded machine can make a granted acquire miss the short timeout: re-run the disagreeing schedules with a
            # generous timeout before believing them
            scheds2 = [scheds[i] for i in bad]
            cases2, meta2 = [], []
            for n, sched in enumerate(scheds2):
                case, labels, outs = c04_mp.run_schedule(W, f"{path0}r{n}.ukv", sched, nproc, timeout=1.0)
                cases2.append(case); meta2.append((labels, outs))
            bad2 = vlib.run_shards(ctx, rep, "c04retry", c04_mp.HEADER, "check_mcase", cases2, shard=100, case_type="mcase")
            rep.obligations = [(n, True if n.startswith("corr_c04_") and not bad2 else ok_) for n, ok_ in rep.obligations]
            if bad2:
                labels, outs = meta2[bad2[0]]
                # a refused acquire that the model allows, or an acquire granted that the model refuses, IS a violation of
                # mutual exclusion / progress: the schedule is the failing input
                rep.violate("C04:stepped:differs-from-lock-semantics",
                            f"{len(bad2)} stepped schedules end differently from the reader/writer-lock transition system; first: {labels} -> {outs}",
                            {"kind": "stepped", "labels": labels, "outcomes": outs})
        # schedules in which a process is killed (SIGKILL) inside or outside a session: Model/SessionDeath.v
        dcases, dmeta, dviol = c04_mp.death_schedules(ctx, 210 if ctx.thorough else 35)
        for mt in dmeta:
            rep.case(key=f"death:{mt['scenario']}:{mt['kind']}:{mt['cut']}", sample=mt if mt["scenario"] in (0, 4) else None)
            rep.count("death:" + mt["kind"])
            if mt["kind"] == "writer":
                rep.count("death:writer:" + ("nothing-of-the-session-on-disk" if mt["cut"] <= 0 else
                                             "whole-session-on-disk" if mt["cut"] >= mt["session_bytes"] else
                                             "torn-tail" if mt["shown"] < mt["puts"] else "complete-records-only"))
        for sig, text in dviol[:6]:
            rep.violate(sig, text, {"kind": "death", "seed": ctx.seed})
        dbad = vlib.run_shards(ctx, rep, "c04death", c04_mp.DHEADER, "check_dcase", dcases, shard=40, case_type="dcase")
        if dbad is None:
            vlib.broken_obligation(rep, "corr_c04death", "a correspondence shard did not compile: " + str(rep.extra.get("shard_errors"))[-1500:], bool(rep.violations))
        elif dbad:
            mt = dmeta[dbad[0]]
            rep.extra["death_mismatching"] = len(dbad)
            if not dviol:
                rep.violate("broken:corr_c04death", f"{len(dbad)} death schedule(s) end differently from Model/SessionDeath.v but the oracle finds no property "
                            f"violation on them; first: {mt['labels']} -> {mt['outcomes']}", {"obligation": "corr_c04death", "first": mt}, no_input=True)
        # two processes racing to create the same fresh library (the constructor's critical section, concretely)
        for k in range(4 if ctx.thorough else 2):
            cviol, raced = c04_mp.creation_race(ctx, k)
            rep.case(key=f"creation-race:{k}")
            rep.count("creation-race:looks-intercepted", raced)
            for sig, text in cviol:
                rep.violate(sig, text, {"kind": "creation-race"})
        # free-running schedules with injected delays, faults and path aliases
        rounds = 12 if ctx.thorough else 3
        for rd in range(rounds):
            viol, nsess, niv = c04_mp.free_run(ctx, W, len(W.ps), 10 if ctx.thorough else 5, aliases=True)
            rep.case(key=f"free-run-{rd}:{nsess}-sessions")
            rep.count("free:sessions", nsess); rep.count("free:file-intervals", niv)
            for sig, text in viol[:5]:
                rep.violate(sig, text, {"kind": "free", "round": rd, "seed": ctx.seed})
            W.close(); W = c04_mp.Workers(ctx, len(W.ps))
        probe = c04_skel.Probe(ctx)
        try:
            if not probe.free(os.path.join(ctx.sub("c04free"), "lib.ukv")):
                rep.violate("C04:free:lock-leaked", "after all sessions ended a fresh process cannot take the lock", {"kind": "free"})
        finally:
            probe.close()
    except c04_mp.Hanging:
        pass
    finally:
        for what in c04_mp.HUNG[:5]:
            rep.violate("C04:mp:session-hangs", f"a session call never answered and never timed out ({what}): the next session does not proceed",
                        {"kind": "hang", "what": what, "seed": ctx.seed})
        W.close()
    # ---- sessions of 1..3 long-lived handles of ONE process, serialised (the property's "all interleavings of k sessions over
    # 2..3 handles"): a handle that sat idle while another handle's session wrote, a session that ends with a failing flush and
    # the NEXT session of the same handle, pickled handle copies.  Same histories and model (Model/Backend.v) as C02's
    # collection level, judged here as "no record written in a completed session is lost or altered; a failing session does not
    # spoil the next one".
    import ukv_common as U
    hcases, hmeta = [], []
    hpath = os.path.join(ctx.sub("c04hist"), "c.ukv")
    for n in range(1500 if ctx.thorough else 220):
        cfg = [(ctx.rng.choice(U.BUFS), ctx.rng.random() < 0.15) for _ in range(ctx.rng.randint(2, 3))]
        if all(ro for _, ro in cfg):
            cfg[0] = (cfg[0][0], False)
        h = U.gen_chistory(ctx.rng, cfg)
        if n % 3 == 0:
            h, cfg = U.directed_chistory(ctx.rng)
        elif n % 3 == 1:
            h, cfg = idle_handle_history(ctx.rng)
        d = U.cdrive(hpath, h, cfg)
        hcases.append(U.bcase_coq(d, cfg)); hmeta.append((h, cfg))
        rep.case(key="hist:" + "; ".join(d["ops"]))
        rep.count("session-history:" + ("random", "doomed-batch", "idle-handle")[2 if n % 3 == 1 else 1 if n % 3 == 0 else 0])
        for sig, text in d["oracle"]:
            rep.violate(sig.replace("C02:", "C04:sessions:"), text, {"kind": "sessions", "cfg": cfg, "ops": [_ser(o) for o in h]})
    hbad = vlib.run_shards(ctx, rep, "c04hist", U.HEADER_B, "check_bcase", hcases, shard=120, case_type="bcase")
    if hbad is None:
        vlib.broken_obligation(rep, "corr_c04hist", "a correspondence shard did not compile: " + str(rep.extra.get("shard_errors"))[-1500:], bool(rep.violations))
    elif hbad and not rep.violations:
        h, cfg = hmeta[hbad[0]]
        rep.violate("broken:corr_c04hist", f"backend model and implementation disagree on {len(hbad)} session histories (first: cfg={cfg} {[_ser(o) for o in h][:12]}) "
                    "but the oracle finds no property violation on them", {"kind": "sessions", "cfg": cfg, "ops": [_ser(o) for o in h], "obligation": "corr_c04hist"}, no_input=True)
    if not tok:
        vlib.broken_obligation(rep, "Props/C02code.v|C02bcode.v", "the translation of molli/storage/ukvfile.py / backends.py no longer refines the model "
                               f"(what a session does to the file is Model/UKV.v + Model/Backend.v): {twhere}\n{tout[-1500:]}", bool(rep.violations))
    if not ok:
        vlib.broken_obligation(rep, "Props/C04.v", (f"AST extractor refused: {refusal}\n" if refusal else "") + f"{where}\n{out[-1500:]}",
                               bool(rep.violations))


def _ser(o):
    import ukv_common as U
    return [x.hex() if isinstance(x, bytes) else ([x.seed, x.n] if isinstance(x, U.Val) else x) for x in o]


def idle_handle_history(rng):
    """Handle A runs a session without puts of its own (its cached table and end-of-file are exactly the file's), handle B's
    session appends, then A comes back as a reader and as a writer; also with a doomed put in B's or A's session first."""
    import ukv_common as U
    V = lambda: U.Val(rng.randrange(256), rng.choice([0, 1, 3, 17, 300]))
    cfg = [(rng.choice(U.BUFS), False), (rng.choice(U.BUFS), False)]
    ops = []
    if rng.random() < 0.7:
        ops += [("beginw", 0), ("put", 0, "a", V())] + ([("put", 0, "K" * 256, V())] if rng.random() < 0.4 else []) + [("endw", 0)]
    ops += [(rng.choice(["beginr", "beginw"]), 0), ("keys", 0)]
    ops += [("endw" if ops[-2][0] == "beginw" else "endr", 0)]
    ops += [("beginw", 1)] + [("put", 1, k, V()) for k in rng.sample(["b", "c", "ab", "d"], rng.randint(1, 3))] + [("endw", 1)]
    back = rng.choice(["r", "w", "rw"])
    if "r" in back:
        ops += [("beginr", 0), ("keys", 0), ("get", 0, "b"), ("get", 0, "c"), ("len", 0, 0), ("endr", 0)]
    if "w" in back:
        ops += [("beginw", 0), ("keys", 0), ("put", 0, "e", V()), ("get", 0, "e"), ("endw", 0)]
    ops += [("beginr", 1), ("keys", 1), ("items", 1), ("endr", 1)]
    return ops, cfg


def replay(ctx, data):
    out = []
    if data.get("kind") == "sessions":
        import ukv_common as U, c02
        d = U.cdrive(os.path.join(ctx.sub("c04hist"), "c.ukv"), [c02._deser(o, True) for o in data["ops"]], [tuple(x) for x in data["cfg"]])
        print("ops:", d["ops"]); print("results:", d["results"])
        return [vlib.Violation(s.replace("C02:", "C04:sessions:"), t) for s, t in d["oracle"]]
    if data.get("kind") == "hang":
        # the smallest contention: a writer inside its session, a reader (then a writer) asking with a short timeout
        W = c04_mp.Workers(ctx, 3)
        try:
            path = os.path.join(ctx.sub("c04"), "hang.ukv")
            for p in range(3):
                W.call(p, cmd="new", h=path, path=path)
            print("writer enters:", W.call(0, cmd="enter", h=path, w=True, timeout=5.0))
            for p, w in ((1, False), (2, True)):
                r = W.call(p, cmd="enter", h=path, w=w, timeout=0.5)
                print(("writer" if w else "reader"), "asks with timeout 0.5 ->", r)
                if r == "err:hung":
                    out.append(vlib.Violation("C04:mp:session-hangs", "a session asked with a timeout neither proceeds nor times out while another process writes"))
            W.call(0, cmd="exit", h=path)
        finally:
            W.close()
        return out
    if data.get("kind") == "vector":
        probe = c04_skel.Probe(ctx)
        try:
            tr, exn, free, closed = c04_skel.run_vector(os.path.join(ctx.sub("c04"), "rp.ukv"), data["session"], set(data["faults"]), probe)
        finally:
            probe.close()
        print("trace:", tr, "exn:", exn, "lock free:", free, "file closed:", closed)
        if not free:
            out.append(vlib.Violation("C04:lock-not-released", "lock still held after the session"))
        if not closed:
            out.append(vlib.Violation("C04:file-left-open", "file still open after the session"))
    return out
