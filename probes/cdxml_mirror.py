import molli as ml, numpy as np, warnings, re, os, itertools
warnings.filterwarnings('ignore')
swap={'WedgeBegin':'WedgedHashBegin','WedgedHashBegin':'WedgeBegin','WedgeEnd':'WedgedHashEnd','WedgedHashEnd':'WedgeEnd','Bold':'Hash','Hash':'Bold'}
def mirror(txt): return re.sub(r'Display="(\w+)"', lambda m: 'Display="%s"'%swap.get(m[1],m[1]), txt)
def vols(m):
    out={}
    for i,a in enumerate(m.atoms):
        nb=[m.atoms.index(x) for x in m.connected_atoms(a)]
        if len(nb)>=3:
            p=m.coords; c=p[i]
            v=[float(np.dot(p[x]-c, np.cross(p[y]-c,p[z]-c))) for x,y,z in itertools.combinations(nb,3)]
            out[i]=v
    return out
tot=flip=same=planar=0; const_bad=0; hapto=0
for fn in ['BOX_4position_fragments','BOX_bridging_fragments','BOX_cores','charges_mult','parser_demo','parser_demo2']:
    src=open(f'/repo/molli/files/{fn}.cdxml').read(); open('/root/scratch/mir.cdxml','w').write(mirror(src))
    A=ml.CDXMLFile(f'/repo/molli/files/{fn}.cdxml'); B=ml.CDXMLFile('/root/scratch/mir.cdxml')
    for k in A.keys():
        try: a=A[k]; b=B[k]
        except Exception as e: print('parse fail',fn,k,e); continue
        if [x.element for x in a.atoms]!=[x.element for x in b.atoms] or a.n_bonds!=b.n_bonds: const_bad+=1
        va,vb=vols(a),vols(b)
        for i in va:
            if any(x.atype==ml.AtomType.CoordinationCenter for x in list(a.connected_atoms(i))+[a.atoms[i]]): hapto+=1; continue
            for x,y in zip(va[i],vb[i]):
                if abs(x)<0.05 and abs(y)<0.05: planar+=1
                elif x*y<0: flip+=1
                else: same+=1; 
                tot+=1
print('triples',tot,'planar',planar,'flipped',flip,'NOT flipped',same,'constitution differs',const_bad,'hapto skipped',hapto)
