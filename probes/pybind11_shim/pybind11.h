// minimal stand-in for the handful of pybind11 names molli_xt/distance.cpp uses
#pragma once
#include <vector>
#include <cstddef>
#include <initializer_list>
#include <sys/types.h>
namespace pybind11 {
  using ssize_t = ::ssize_t;
  struct gil_scoped_release { gil_scoped_release() {} };
  struct module_ { template <typename F> module_& def(const char*, F, const char*) { return *this; } };
  namespace array { enum { c_style = 1, forcecast = 2 }; }
  template <typename T, int N> struct acc {
    T* p; const ssize_t* sh;
    const T* data(ssize_t i, ssize_t j) const { static_assert(N==2,""); return p + (i*sh[1]+j); }
    const T* data(ssize_t i, ssize_t j, ssize_t k) const { return p + ((i*sh[1]+j)*sh[2]+k); }
    T& operator()(ssize_t i, ssize_t j) { return p[i*sh[1]+j]; }
    T& operator()(ssize_t i, ssize_t j, ssize_t k) { return p[(i*sh[1]+j)*sh[2]+k]; }
  };
  template <typename T, int F = 0> struct array_t {
    std::vector<ssize_t> sh; mutable std::vector<T> buf;
    array_t() {}
    array_t(std::initializer_list<ssize_t> s) : sh(s) { size_t n=1; for (auto x: sh) n*=x; buf.resize(n); }
    ssize_t shape(int i) const { return sh[i]; }
    template <int N> acc<T,N> unchecked() const { return acc<T,N>{buf.data(), sh.data()}; }
    template <int N> acc<T,N> mutable_unchecked() { return acc<T,N>{buf.data(), sh.data()}; }
  };
}
