#include "distance.cpp"
#include <cstdio>
#include <cstdlib>
// usage: reads "T kind X L1 L2" then arr1 then arr2 as hex floats; prints result as hex floats
template <typename T> int go(int kind, long X, long L1, long L2) {
  using namespace molli;
  carray<T> b({L2,3}); 
  if (kind==22) { carray<T> a({L1,3}); for (auto &v: a.buf) { double d; if (scanf("%la",&d)!=1) return 2; v=(T)d; } for (auto &v: b.buf) { double d; if (scanf("%la",&d)!=1) return 2; v=(T)d; }
    auto r = cdist22<T, euclidean2<T,3>>(a,b); for (auto v: r.buf) printf("%a\n",(double)v); }
  else { carray<T> a({X,L1,3}); for (auto &v: a.buf) { double d; if (scanf("%la",&d)!=1) return 2; v=(T)d; } for (auto &v: b.buf) { double d; if (scanf("%la",&d)!=1) return 2; v=(T)d; }
    auto r = cdist32<T, euclidean2<T,3>>(a,b); for (auto v: r.buf) printf("%a\n",(double)v); }
  return 0; }
int main(){ char t; int kind; long X,L1,L2; if (scanf(" %c %d %ld %ld %ld",&t,&kind,&X,&L1,&L2)!=5) return 2; return t=='f'? go<float>(kind,X,L1,L2) : go<double>(kind,X,L1,L2); }
