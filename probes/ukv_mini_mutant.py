import sys; sys.argv=['x','1','120','cases_mut.v']
import harness
from molli.storage.ukvfile import UKVFile, UKVRecord, _BLOCK_HEADER
def put(self,key,value):
    from io import UnsupportedOperation
    if not self.writable: raise UnsupportedOperation("x")
    self._toc[key]=UKVRecord(self._eof,len(key),len(value))   # mutant: no duplicate check
    self._stream.seek(self._eof); self._pack_write(_BLOCK_HEADER,len(key),len(value)); self._stream.write(key); self._stream.write(value); self._eof=self._stream.tell()
UKVFile.put=put
import random, time
rng=random.Random(1); cases=[]
for c in range(120):
    s,n=harness.gen_case(rng,'/root/scratch/ukv/tmp.ukv'); cases.append(s)
src=open('cases1.v').read()
head=src[:src.index('Definition cases')]
open('cases_mut.v','w').write(head+"Definition cases := [\n"+";\n".join(cases)+"].\nDefinition mism := map fst (filter (fun '(i,c) => negb (ok c)) (combine (seq 0 (length cases)) cases)).\nEval vm_compute in mism.\nExample corr : mism = []. Proof. vm_compute. reflexivity. Qed.\n")
