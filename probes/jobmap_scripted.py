import molli as ml, numpy as np, warnings, os, sys, tempfile, shutil, traceback
warnings.filterwarnings('ignore')
from molli.pipeline import Job, JobInput, JobOutput, jobmap
class D:
    executable='sh'; nprocs=1; envars=None
    @Job(return_files=('o.txt',)).prep
    def j(self, m, fail=(), **kw):
        cnt=f"/root/scratch/jm/count_{m.name}"
        cmd = f"sh -c 'echo x >> {cnt}; " + ("exit 1'" if m.name in fail else "echo ok > o.txt'")
        return JobInput(m.name, commands=[(cmd,'c')], return_files=self.return_files)
    @j.post
    def j(self, out, m, **kw):
        mm=ml.Molecule(m); mm.attrib['done']=out.files['o.txt'].decode().strip(); return mm
def T(name,f):
    try: print(name,'->',f())
    except Exception as e: print(name,'EXC',type(e).__name__,e); traceback.print_exc(limit=2)
base='/root/scratch/jm'; shutil.rmtree(base,ignore_errors=True); os.makedirs(base)
src=ml.MoleculeLibrary(base+'/src.mlib',readonly=False); dst=ml.MoleculeLibrary(base+'/dst.mlib',readonly=False)
with src.writing():
    for n in 'abc': src[n]=ml.Molecule(['C'],coords=[[0,0,0]],name=n)
d=D()
def counts(): return {n:(len(open(f'{base}/count_{n}').read().split()) if os.path.exists(f'{base}/count_{n}') else 0) for n in 'abc'}
def keys():
    with dst.reading(): return sorted(dst.keys())
T('run1 (b fails)', lambda: (jobmap(d.j, src, dst, cache_dir=base+'/cache', scratch_dir=base+'/scr', kwargs={'fail':('b',)}, n_workers=2), counts(), keys())[1:])
T('run2 (all ok)', lambda: (jobmap(d.j, src, dst, cache_dir=base+'/cache', scratch_dir=base+'/scr', n_workers=2), counts(), keys())[1:])
# dest-only key
with dst.writing(): dst['zzz']=ml.Molecule(['C'],coords=[[0,0,0]],name='zzz')
T('run3 (dest-only key)', lambda: (jobmap(d.j, src, dst, cache_dir=base+'/cache', scratch_dir=base+'/scr', n_workers=2), counts(), keys())[1:])
