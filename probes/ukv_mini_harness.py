import os, sys, random, struct, time, io
sys.path.insert(0,'/repo')
from molli.storage.ukvfile import UKVFile
from io import UnsupportedOperation
def pat(seed,n): return bytes((seed+7*i)%256 for i in range(n))
def coq_bytes(b): return "["+";".join(map(str,b))+"]"
def gen_case(rng, path):
    if os.path.exists(path): os.remove(path)
    UKVFile(path,'x').close()
    hs=[None,None,None]; state=['closed']*3   # closed / r / a
    keys=[b"", b"a", b"b", b"ab", bytes([0,255,10]), b"k"*255]
    ops=[]; exp=[]; vals={}
    def vexpr(v): return vals.get(v) or coq_bytes(v)
    n=rng.randint(1,25)
    for _ in range(n):
        i=rng.randrange(3); kind=rng.choice(['open','open','close','put','put','put','get','get','keys'])
        if kind=='open':
            w=rng.random()<0.6
            others_open=[j for j in range(3) if j!=i and state[j]!='closed']
            if w and others_open: continue
            if (not w) and any(state[j]=='a' for j in range(3) if j!=i): continue
            if hs[i] is None: hs[i]=UKVFile(path,'a' if w else 'r')
            else: hs[i].open('a' if w else 'r')
            if state[i]=='closed': state[i]='a' if w else 'r'
            ops.append(f"Open {i} {'true' if w else 'false'}"); exp.append("ROk")
        elif kind=='close':
            if hs[i] is None: continue
            if state[i]=='closed': continue   # double close raises in impl? skip
            hs[i].close(); state[i]='closed'; ops.append(f"Close {i}"); exp.append("ROk")
        elif hs[i] is None: continue
        elif kind=='put':
            k=rng.choice(keys); s=rng.randrange(256); l=rng.choice([0,1,3,17,300, 70000 if rng.random()<0.1 else 5]); v=pat(s,l); vals[v]=f"(pat {s} {l})"
            try: hs[i].put(k,v); r="ROk"
            except UnsupportedOperation: r="(RErr 1)"
            except KeyError: r="(RErr 2)"
            ops.append(f"Put {i} {coq_bytes(k)} (pat {s} {l})"); exp.append(r)
        elif kind=='get':
            k=rng.choice(keys)
            try: v=hs[i].get(k); r=f"(RVal {vexpr(v)})"
            except UnsupportedOperation: r="(RErr 1)"
            except KeyError: r="(RErr 4)"
            except ValueError: r="(RErr 1)"
            ops.append(f"Get {i} {coq_bytes(k)}"); exp.append(r)
        else:
            ops.append(f"Keys {i}"); exp.append("(RKeys ["+";".join(coq_bytes(k) for k in hs[i].keys())+"])")
    for h in hs:
        if h is not None and not h.closed: h.close()
    data=open(path,'rb').read(); parts=[coq_bytes(data[:32])]; pos=32
    while pos<len(data):
        kl,vl=struct.unpack('>BI',data[pos:pos+5]); k=data[pos+5:pos+5+kl]; v=data[pos+5+kl:pos+5+kl+vl]
        parts.append(f"{coq_bytes(data[pos:pos+5])} ++ {coq_bytes(k)} ++ {vexpr(v)}"); pos+=5+kl+vl
    hdr=coq_bytes(open(path,'rb').read()[:32])
    return f"(({hdr}, [{';'.join(ops)}]), ([{';'.join(exp)}], {' ++ '.join(parts)}))", n
if __name__=='__main__':
    seed=int(sys.argv[1]); N=int(sys.argv[2]); out=sys.argv[3]
    rng=random.Random(seed); t0=time.time(); cases=[]; tot=0
    for c in range(N):
        s,n=gen_case(rng,'/root/scratch/ukv/tmp.ukv'); cases.append(s); tot+=n
    with open(out,'w') as f:
        f.write("From Coq Require Import NArith List Bool. Import ListNotations. From U Require Import UKV. Open Scope N_scope.\n")
        f.write("Definition reseq (a b : res) : bool := match a, b with ROk, ROk => true | RVal x, RVal y => beq x y | RErr x, RErr y => x =? y | RKeys x, RKeys y => Nat.eqb (length x) (length y) && forallb (fun '(p,q) => beq p q) (combine x y) | _, _ => false end.\n")
        f.write("Definition ok (c : (list N * list op) * (list res * list N)) : bool := let '((hdr, ops), (er, ef)) := c in let '(rs, f) := run (hdr, [h0;h0;h0]) ops in Nat.eqb (length rs) (length er) && forallb (fun '(p,q) => reseq p q) (combine rs er) && beq f ef.\n")
        f.write("Definition cases := [\n"+";\n".join(cases)+"].\n")
        f.write("Definition mism := map fst (filter (fun '(i,c) => negb (ok c)) (combine (seq 0 (length cases)) cases)).\n")
        f.write("Example corr : mism = []. Proof. vm_compute. reflexivity. Qed.\n")
    print('cases',N,'ops',tot,'gen time',round(time.time()-t0,2))
