From Coq Require Import List Bool Lia.
Import ListNotations.
Section Split.
Context {A : Type} (ws : A -> bool).
(* Python str.split() with no argument: maximal runs of non-whitespace *)
Fixpoint split_aux (cur : list A) (s : list A) : list (list A) :=
  match s with
  | [] => match cur with [] => [] | _ => [rev cur] end
  | c :: s' => if ws c then match cur with [] => split_aux [] s' | _ => rev cur :: split_aux [] s' end
               else split_aux (c :: cur) s'
  end.
Definition split (s : list A) := split_aux [] s.
Definition all_ws (s : list A) := forallb ws s = true.
Definition tok (t : list A) := t <> [] /\ forallb (fun c => negb (ws c)) t = true.
Lemma split_aux_tok t : forall cur s, forallb (fun c => negb (ws c)) t = true -> split_aux cur (t ++ s) = split_aux (rev t ++ cur) s.
Proof.
  induction t as [|c t IH]; intros cur s H; [reflexivity|]. simpl in H. apply andb_prop in H. destruct H as [Hc Ht].
  simpl. apply negb_true_iff in Hc. rewrite Hc. rewrite IH by exact Ht. simpl. now rewrite <- app_assoc.
Qed.
Lemma split_ws w : forall s, all_ws w -> split (w ++ s) = split s.
Proof.
  unfold split, all_ws. induction w as [|c w IH]; intros s H; [reflexivity|]. simpl in H. apply andb_prop in H. destruct H as [Hc Hw].
  simpl. rewrite Hc. now apply IH.
Qed.
Lemma split_tok_sep t c s : tok t -> ws c = true -> split (t ++ c :: s) = t :: split s.
Proof.
  intros [Hne Ht] Hc. unfold split. rewrite split_aux_tok by exact Ht. rewrite app_nil_r. simpl. rewrite Hc.
  destruct (rev t) eqn:E.
  - exfalso. apply Hne. apply (f_equal (@rev A)) in E. rewrite rev_involutive in E. exact E.
  - rewrite <- E, rev_involutive. reflexivity.
Qed.
Lemma split_tok_end t : tok t -> split t = [t].
Proof.
  intros [Hne Ht]. unfold split. rewrite <- (app_nil_r t) at 1. rewrite split_aux_tok by exact Ht. rewrite app_nil_r. simpl.
  destruct (rev t) eqn:E.
  - exfalso. apply Hne. apply (f_equal (@rev A)) in E. rewrite rev_involutive in E. exact E.
  - rewrite <- E, rev_involutive. reflexivity.
Qed.
(* a written line: optional leading blanks, tokens each followed by a NON-EMPTY blank separator, optional last token without separator *)
Fixpoint line (pairs : list (list A * list A)) (last : list A) : list A :=
  match pairs with [] => last | (t, sep) :: ps => t ++ sep ++ line ps last end.
Theorem split_line lead pairs last :
  all_ws lead -> Forall (fun p => tok (fst p) /\ snd p <> [] /\ all_ws (snd p)) pairs -> (last = [] \/ tok last) ->
  split (lead ++ line pairs last) = map fst pairs ++ (match last with [] => [] | _ => [last] end).
Proof.
  intros Hl Hp Hlast. rewrite split_ws by exact Hl. clear lead Hl.
  induction pairs as [|[t sep] ps IH]; simpl.
  - destruct Hlast as [->|Ht]; [reflexivity|]. rewrite split_tok_end by exact Ht. destruct last; [destruct Ht as [Hne _]; contradiction|reflexivity].
  - inversion Hp as [|x l [Ht [Hne Hs]] Hps]; subst. simpl in *. destruct sep as [|c sep]; [contradiction|].
    unfold all_ws in Hs. simpl in Hs. apply andb_prop in Hs. destruct Hs as [Hc Hs]. simpl.
    rewrite split_tok_sep; [|exact Ht|exact Hc]. rewrite split_ws by exact Hs. rewrite IH by exact Hps. reflexivity.
Qed.
End Split.
Print Assumptions split_line.
