From Coq Require Import Reals Nsatz.
Open Scope R_scope.
(* orthogonality of Rodrigues, one off-diagonal and one diagonal entry, division as variable k *)
Section Rod.
Variables a1 a2 a3 b1 b2 b3 k : R.
Hypothesis Ha : a1*a1+a2*a2+a3*a3 = 1.
Hypothesis Hb : b1*b1+b2*b2+b3*b3 = 1.
Hypothesis Hk : k * (1 + (a1*b1+a2*b2+a3*b3)) = 1.
Let U11 := a1*b1 - b1*a1. Let U12 := a1*b2 - b1*a2. Let U13 := a1*b3 - b1*a3.
Let U21 := a2*b1 - b2*a1. Let U22 := a2*b2 - b2*a2. Let U23 := a2*b3 - b2*a3.
Let U31 := a3*b1 - b3*a1. Let U32 := a3*b2 - b3*a2. Let U33 := a3*b3 - b3*a3.
Let S11 := U11*U11+U12*U21+U13*U31. Let S12 := U11*U12+U12*U22+U13*U32. Let S13 := U11*U13+U12*U23+U13*U33.
Let S21 := U21*U11+U22*U21+U23*U31. Let S22 := U21*U12+U22*U22+U23*U32. Let S23 := U21*U13+U22*U23+U23*U33.
Let S31 := U31*U11+U32*U21+U33*U31. Let S32 := U31*U12+U32*U22+U33*U32. Let S33 := U31*U13+U32*U23+U33*U33.
Let R11 := 1 + U11 + S11*k. Let R12 := U12 + S12*k. Let R13 := U13 + S13*k.
Let R21 := U21 + S21*k. Let R22 := 1 + U22 + S22*k. Let R23 := U23 + S23*k.
Let R31 := U31 + S31*k. Let R32 := U32 + S32*k. Let R33 := 1 + U33 + S33*k.
Lemma orth11 : R11*R11 + R12*R12 + R13*R13 = 1.
Proof. unfold R11,R12,R13,S11,S12,S13,U11,U12,U13,U21,U22,U23,U31,U32,U33. nsatz. Qed.
Lemma orth12 : R11*R21 + R12*R22 + R13*R23 = 0.
Proof. unfold R11,R12,R13,R21,R22,R23,S11,S12,S13,S21,S22,S23,U11,U12,U13,U21,U22,U23,U31,U32,U33. nsatz. Qed.
Lemma det1 : R11*(R22*R33-R23*R32) - R12*(R21*R33-R23*R31) + R13*(R21*R32-R22*R31) = 1.
Proof. unfold R11,R12,R13,R21,R22,R23,R31,R32,R33,S11,S12,S13,S21,S22,S23,S31,S32,S33,U11,U12,U13,U21,U22,U23,U31,U32,U33. nsatz. Qed.
End Rod.
