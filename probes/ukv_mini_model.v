From Coq Require Import NArith List Bool Lia.
Import ListNotations. Open Scope N_scope.
Definition byte := N.
Definition key := list byte.
Fixpoint beq (a b : list N) : bool := match a, b with [], [] => true | x::a', y::b' => (x =? y) && beq a' b' | _, _ => false end.
Record rec := { r_pos : N; r_klen : N; r_vlen : N }.
Definition r_end r := r_pos r + 5 + r_klen r + r_vlen r.
Definition toc_t := list (key * rec).
Fixpoint lookup (t : toc_t) (k : key) : option rec := match t with [] => None | (k',r)::t' => if beq k k' then Some r else lookup t' k end.
Fixpoint update (t : toc_t) (k : key) (r : rec) : toc_t := match t with [] => [(k,r)] | (k',r')::t' => if beq k k' then (k',r)::t' else (k',r')::update t' k r end.
Definition len (l : list N) : N := N.of_nat (length l).
Definition sub (f : list N) (pos n : N) : list N := firstn (N.to_nat n) (skipn (N.to_nat pos) f).
Definition be32 (v : N) : list N := [v / 16777216 mod 256; v / 65536 mod 256; v / 256 mod 256; v mod 256].
Definition rd32 (l : list N) : option N := match l with [a;b;c;d] => Some (((a*256+b)*256+c)*256+d) | _ => None end.
Definition enc_block (k v : list N) : option (list N) :=
  if (len k <? 256) && (len v <? 4294967296) then Some (len k :: be32 (len v) ++ k ++ v) else None.
(* fixed scan: stop at first block not wholly inside the file *)
Fixpoint scan (fuel : nat) (f : list N) (pos : N) (t : toc_t) (lastk : option key) : toc_t * option key * N :=
  match fuel with O => (t, lastk, pos) | S fuel' =>
    match sub f pos 5 with
    | kl :: rest => match rd32 rest with
        | Some vl => let r := {| r_pos := pos; r_klen := kl; r_vlen := vl |} in
                     if r_end r <=? len f then let k := sub f (pos+5) kl in scan fuel' f (r_end r) (update t k r) (Some k)
                     else (t, lastk, pos)
        | None => (t, lastk, pos) end
    | [] => (t, lastk, pos) end end.
Record handle := { toc : toc_t; last : option key; eof : option N; writable : bool; closed : bool }.
Definition bof := 32.  (* header without h2/b0 in this probe *)
Definition map_blocks (f : list N) (h : handle) : handle :=
  let endl := match last h with Some k => match lookup (toc h) k with Some r => Some (r_end r) | None => None end | None => Some bof end in
  if match eof h, endl with Some e, Some e' => (e =? len f) && (e =? e') | _, _ => false end then h
  else let '(t, lk, p) := scan (S (length f)) f bof (toc h) None in
       {| toc := t; last := lk; eof := Some p; writable := writable h; closed := closed h |}.
Inductive res := ROk | RVal (v : list N) | RKeys (ks : list key) | RErr (e : N).
Definition open_ (f : list N) (h : handle) (w : bool) : handle :=
  if closed h then let h' := map_blocks f {| toc := toc h; last := last h; eof := eof h; writable := w; closed := false |} in h' else h.
Definition close_ (h : handle) : handle := {| toc := toc h; last := last h; eof := eof h; writable := writable h; closed := true |}.
Definition put (f : list N) (h : handle) (k v : list N) : list N * handle * res :=
  if closed h || negb (writable h) then (f, h, RErr 1) else
  match lookup (toc h) k with Some _ => (f, h, RErr 2) | None =>
    match enc_block k v, eof h with
    | Some b, Some e => let f' := firstn (N.to_nat e) f ++ b ++ skipn (N.to_nat (e + len b)) f in
        (f', {| toc := update (toc h) k {| r_pos := e; r_klen := len k; r_vlen := len v |}; last := last h; eof := Some (e + len b); writable := true; closed := false |}, ROk)
    | _, _ => (f, h, RErr 3) end end.
Definition get (f : list N) (h : handle) (k : list N) : res :=
  if closed h then RErr 1 else match lookup (toc h) k with None => RErr 4 | Some r => RVal (sub f (r_pos r + 5 + r_klen r) (r_vlen r)) end.
Inductive op := Open (h : nat) (w : bool) | Close (h : nat) | Put (h : nat) (k v : list N) | Get (h : nat) (k : list N) | Keys (h : nat).
Definition h0 : handle := {| toc := []; last := None; eof := None; writable := false; closed := true |}.
Definition upd {A} (l : list A) (i : nat) (x : A) : list A := firstn i l ++ x :: skipn (S i) l.
Definition step (st : list N * list handle) (o : op) : (list N * list handle) * res :=
  let '(f, hs) := st in
  match o with
  | Open i w => let h := nth i hs h0 in ((f, upd hs i (open_ f h w)), ROk)
  | Close i => ((f, upd hs i (close_ (nth i hs h0))), ROk)
  | Put i k v => let '(f', h', r) := put f (nth i hs h0) k v in ((f', upd hs i h'), r)
  | Get i k => ((f, hs), get f (nth i hs h0) k)
  | Keys i => ((f, hs), RKeys (map fst (toc (nth i hs h0))))
  end.
Fixpoint run (st : list N * list handle) (ops : list op) : list res * list N :=
  match ops with [] => ([], fst st) | o :: ops' => let '(st', r) := step st o in let '(rs, f) := run st' ops' in (r :: rs, f) end.
Fixpoint patn (n : nat) (i seed : N) : list N := match n with O => [] | S n' => ((seed + 7 * i) mod 256) :: patn n' (i + 1) seed end.
Definition pat (seed len : N) : list N := patn (N.to_nat len) 0 seed.
