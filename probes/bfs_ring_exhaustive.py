import molli as ml, itertools, networkx as nx, numpy as np, warnings
warnings.filterwarnings('ignore')
bad=0; n_q=0
for n in range(1,6):
    pairs=list(itertools.combinations(range(n),2))
    for mask in range(1<<len(pairs)):
        E=[p for i,p in enumerate(pairs) if mask>>i&1]
        m=ml.Molecule(['C']*n, coords=np.zeros((n,3)))
        for a,b in E: m.connect(a,b)
        G=nx.Graph(); G.add_nodes_from(range(n)); G.add_edges_from(E)
        idx={a:i for i,a in enumerate(m.atoms)}
        for s in range(n):
            out=[(idx[a],d) for a,d in m.yield_bfsd(s)]; n_q+=1
            sp=nx.single_source_shortest_path_length(G,s); del sp[s]
            if dict(out)!=sp or len(out)!=len(sp) or [d for _,d in out]!=sorted(d for _,d in out): bad+=1; print('BFS bad',n,E,s,out,sp)
            for t in G[s]:
                out=[idx[a] for a in m.yield_bfs(s,t)]; n_q+=1
                H=G.copy(); H.remove_node(s); exp=set(nx.node_connected_component(H,t))
                if set(out)!=exp or len(out)!=len(exp): bad+=1; print('dir bad',n,E,s,t,out,exp)
        br=set(map(frozenset,nx.bridges(G)))
        for b in m.bonds:
            r=m.is_bond_in_ring(b); n_q+=1
            if r==(frozenset((idx[b.a1],idx[b.a2])) in br): bad+=1; print('ring bad',n,E)
print('queries',n_q,'bad',bad)
