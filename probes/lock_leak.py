import molli as ml, os, multiprocessing as mp, time, sys
from molli.storage import Collection, UkvCollectionBackend
p='/root/scratch/lk.ukv'
def child(q):
    from fasteners import InterProcessReaderWriterLock
    from molli._aux.lock import rwlock
    l=InterProcessReaderWriterLock(rwlock(p))
    ok=l.acquire_write_lock(timeout=1.0)
    q.put('child got lock' if ok else 'child could NOT get lock in 1s')
    if ok: l.release_write_lock()
if __name__=='__main__':
    if os.path.exists(p): os.remove(p)
    ctx=mp.get_context('spawn'); q=ctx.Queue()
    c=Collection(p,UkvCollectionBackend,readonly=False,bufsize=10**6)
    with c.writing():
        pr=ctx.Process(target=child,args=(q,)); pr.start(); print('during session ->', q.get(timeout=30)); pr.join()
    pr=ctx.Process(target=child,args=(q,)); pr.start(); print('after clean session ->', q.get(timeout=30)); pr.join()
    try:
        with c.writing():
            c['k']=b'1'; c['k']=b'2'
    except Exception as e: print('session exc:', type(e).__name__, e)
    print('state after failed session:', c._backend._state, 'file closed:', c._backend._ukvfile.closed)
    pr=ctx.Process(target=child,args=(q,)); pr.start(); print('after failed session ->', q.get(timeout=30)); pr.join()
