From Coq Require Import Reals QArith Nsatz List.
Import ListNotations.
Record Fops (F:Type) := { f0:F; f1:F; fadd:F->F->F; fmul:F->F->F; fsub:F->F->F; fdiv:F->F->F }.
Arguments f0 {F}. Arguments f1 {F}. Arguments fadd {F}. Arguments fmul {F}. Arguments fsub {F}. Arguments fdiv {F}.
Definition ROps : Fops R := {| f0:=0%R; f1:=1%R; fadd:=Rplus; fmul:=Rmult; fsub:=Rminus; fdiv:=Rdiv |}.
Definition QOps : Fops Q := {| f0:=0%Q; f1:=1%Q; fadd:=Qplus; fmul:=Qmult; fsub:=Qminus; fdiv:=Qdiv |}.
Section M.
Context {F:Type} (o:Fops F).
Notation "x + y" := (fadd o x y). Notation "x * y" := (fmul o x y). Notation "x - y" := (fsub o x y). Notation "x / y" := (fdiv o x y).
Definition vec := (F*F*F)%type.
Definition mat := (vec*vec*vec)%type.
Definition dot (a b:vec) : F := let '(a1,a2,a3):=a in let '(b1,b2,b3):=b in a1*b1+a2*b2+a3*b3.
Definition outer (a b:vec) : mat := let '(a1,a2,a3):=a in let '(b1,b2,b3):=b in
  ((a1*b1,a1*b2,a1*b3),(a2*b1,a2*b2,a2*b3),(a3*b1,a3*b2,a3*b3)).
Definition mmap2 (f:F->F->F) (A B:mat) : mat :=
  let '((a11,a12,a13),(a21,a22,a23),(a31,a32,a33)) := A in
  let '((b11,b12,b13),(b21,b22,b23),(b31,b32,b33)) := B in
  ((f a11 b11,f a12 b12,f a13 b13),(f a21 b21,f a22 b22,f a23 b23),(f a31 b31,f a32 b32,f a33 b33)).
Definition mmul (A B:mat) : mat :=
  let '((a11,a12,a13),(a21,a22,a23),(a31,a32,a33)) := A in
  let '((b11,b12,b13),(b21,b22,b23),(b31,b32,b33)) := B in
  ((a11*b11+a12*b21+a13*b31, a11*b12+a12*b22+a13*b32, a11*b13+a12*b23+a13*b33),
   (a21*b11+a22*b21+a23*b31, a21*b12+a22*b22+a23*b32, a21*b13+a22*b23+a23*b33),
   (a31*b11+a32*b21+a33*b31, a31*b12+a32*b22+a33*b32, a31*b13+a32*b23+a33*b33)).
Definition eye : mat := ((f1 o,f0 o,f0 o),(f0 o,f1 o,f0 o),(f0 o,f0 o,f1 o)).
Definition mscale (A:mat) (k:F) : mat := mmap2 (fun x _ => x / k) A A.
Definition vm (a:vec) (A:mat) : vec :=
  let '(a1,a2,a3):=a in let '((b11,b12,b13),(b21,b22,b23),(b31,b32,b33)) := A in
  (a1*b11+a2*b21+a3*b31, a1*b12+a2*b22+a3*b32, a1*b13+a2*b23+a3*b33).
Definition rodrigues (a b:vec) : mat :=
  let c := dot a b in
  let Ux := mmap2 (fsub o) (outer a b) (outer b a) in
  mmap2 (fadd o) (mmap2 (fadd o) eye Ux) (mscale (mmul Ux Ux) (f1 o + c)).
End M.
Eval vm_compute in rodrigues QOps (1,0,0)%Q (3#5,4#5,0)%Q.
Open Scope R_scope.
Lemma rod_maps a1 a2 a3 b1 b2 b3 :
  a1*a1+a2*a2+a3*a3 = 1 -> b1*b1+b2*b2+b3*b3 = 1 -> 1 + (a1*b1+a2*b2+a3*b3) <> 0 ->
  vm ROps (a1,a2,a3) (rodrigues ROps (a1,a2,a3) (b1,b2,b3)) = (b1,b2,b3).
Proof.
  intros Ha Hb Hc. cbv [vm rodrigues mmap2 mscale mmul outer dot eye ROps fadd fmul fsub fdiv f0 f1].
  unfold Rdiv. set (k := / (1 + (a1*b1+a2*b2+a3*b3))).
  assert (Hk : k * (1 + (a1*b1+a2*b2+a3*b3)) = 1) by (apply Rinv_l; exact Hc).
  clearbody k. clear Hc.
  repeat f_equal.
  all: nsatz.
Qed.
Print Assumptions rod_maps.
