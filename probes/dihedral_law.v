From Coq Require Import Reals Nsatz.
Open Scope R_scope.
Section Dih.
Variables x1 x2 x3 (* u1 *) w1 w2 w3 n (* u2 = n w *) z1 z2 z3 (* u3 *) s c : R.
Hypothesis Hw : w1*w1+w2*w2+w3*w3 = 1.
Hypothesis Hsc : s*s+c*c = 1.
Let y1 := n*w1. Let y2 := n*w2. Let y3 := n*w3.
(* cross products *)
Definition cr1 (a1 a2 a3 b1 b2 b3:R) := a2*b3-a3*b2.
Definition cr2 (a1 a2 a3 b1 b2 b3:R) := a3*b1-a1*b3.
Definition cr3 (a1 a2 a3 b1 b2 b3:R) := a1*b2-a2*b1.
Definition arg1 (z1 z2 z3:R) := n * (x1*cr1 y1 y2 y3 z1 z2 z3 + x2*cr2 y1 y2 y3 z1 z2 z3 + x3*cr3 y1 y2 y3 z1 z2 z3).
Definition arg2 (z1 z2 z3:R) :=
   cr1 x1 x2 x3 y1 y2 y3 * cr1 y1 y2 y3 z1 z2 z3 + cr2 x1 x2 x3 y1 y2 y3 * cr2 y1 y2 y3 z1 z2 z3 + cr3 x1 x2 x3 y1 y2 y3 * cr3 y1 y2 y3 z1 z2 z3.
(* row-vector product z . R with R = I + s W + (1-c) W^2, W as in rotation_matrix_from_axis *)
Let W11:=0. Let W12:=-w3. Let W13:=w2. Let W21:=w3. Let W22:=0. Let W23:=-w1. Let W31:=-w2. Let W32:=w1. Let W33:=0.
Definition zW1 (z1 z2 z3:R) := z1*W11+z2*W21+z3*W31.
Definition zW2 (z1 z2 z3:R) := z1*W12+z2*W22+z3*W32.
Definition zW3 (z1 z2 z3:R) := z1*W13+z2*W23+z3*W33.
Let a1 := zW1 z1 z2 z3. Let a2 := zW2 z1 z2 z3. Let a3 := zW3 z1 z2 z3.
Let b1 := zW1 a1 a2 a3. Let b2 := zW2 a1 a2 a3. Let b3 := zW3 a1 a2 a3.
Let r1 := z1 + s*a1 + (1-c)*b1. Let r2 := z2 + s*a2 + (1-c)*b2. Let r3 := z3 + s*a3 + (1-c)*b3.
(* claim for the code as written (coords @ R): dihedral decreases by theta *)
Lemma as_written_1 : arg1 r1 r2 r3 = c * arg1 z1 z2 z3 - s * arg2 z1 z2 z3.
Proof. unfold arg1,arg2,r1,r2,r3,b1,b2,b3,a1,a2,a3,zW1,zW2,zW3,cr1,cr2,cr3,W11,W12,W13,W21,W22,W23,W31,W32,W33,y1,y2,y3. nsatz. Qed.
Lemma as_written_2 : arg2 r1 r2 r3 = c * arg2 z1 z2 z3 + s * arg1 z1 z2 z3.
Proof. unfold arg1,arg2,r1,r2,r3,b1,b2,b3,a1,a2,a3,zW1,zW2,zW3,cr1,cr2,cr3,W11,W12,W13,W21,W22,W23,W31,W32,W33,y1,y2,y3. nsatz. Qed.
End Dih.
