From Coq Require Import ZArith NArith List Bool Lia ZifyBool ZifyNat ZifyN.
Import ListNotations. Open Scope N_scope.
Ltac Zify.zify_post_hook ::= Z.to_euclidean_division_equations.
Record rec := { r_pos : N; r_klen : N; r_vlen : N }.
Definition len (l : list N) : N := N.of_nat (length l).
Definition be32 (v : N) : list N := [v / 16777216 mod 256; v / 65536 mod 256; v / 256 mod 256; v mod 256].
Definition enc (k v : list N) : list N := len k :: be32 (len v) ++ k ++ v.
Fixpoint scanr (fuel:nat) (rem : list N) (pos:N) (acc : list (list N * rec)) : list (list N * rec) * N :=
  match fuel with O => (acc,pos) | S fuel' =>
  match rem with
  | kl :: a :: b :: c :: d :: rest =>
      let vl := ((a*256+b)*256+c)*256+d in
      if kl + vl <=? len rest then
        scanr fuel' (skipn (N.to_nat (kl+vl)) rest) (pos+5+kl+vl) (acc ++ [(firstn (N.to_nat kl) rest, {| r_pos := pos; r_klen := kl; r_vlen := vl |})])
      else (acc,pos)
  | _ => (acc,pos) end end.
Lemma be32_val v : v < 4294967296 ->
  ((v / 16777216 mod 256 * 256 + v / 65536 mod 256) * 256 + v / 256 mod 256) * 256 + v mod 256 = v.
Proof. intros H. lia. Qed.
Lemma len_app (a b : list N) : len (a ++ b) = len a + len b.
Proof. unfold len. rewrite app_length. lia. Qed.
Lemma firstn_len_app (a b : list N) : firstn (N.to_nat (len a)) (a ++ b) = a.
Proof. unfold len. rewrite Nat2N.id. rewrite firstn_app, Nat.sub_diag, firstn_all. simpl. apply app_nil_r. Qed.
Lemma skipn_len_app (a b : list N) : skipn (N.to_nat (len a)) (a ++ b) = b.
Proof. unfold len. rewrite Nat2N.id. rewrite skipn_app, Nat.sub_diag, skipn_all. reflexivity. Qed.
Lemma scan_one fuel k v tl pos acc :
  len v < 4294967296 ->
  scanr (S fuel) (enc k v ++ tl) pos acc =
  scanr fuel tl (pos + 5 + len k + len v) (acc ++ [(k, {| r_pos := pos; r_klen := len k; r_vlen := len v |})]).
Proof.
  intros Hv. unfold enc, be32. cbn [app scanr].
  rewrite be32_val by exact Hv.
  rewrite <- app_assoc.
  replace (len k + len v <=? len (k ++ v ++ tl)) with true
    by (symmetry; apply N.leb_le; rewrite !len_app; lia).
  rewrite firstn_len_app.
  replace (len k + len v) with (len (k ++ v)) by apply len_app.
  rewrite app_assoc, skipn_len_app. reflexivity.
Qed.
Definition index_from (pos : N) (kvs : list (list N * list N)) : list (list N * rec) * N :=
  fold_left (fun '(acc,p) '(k,v) => (acc ++ [(k, {| r_pos := p; r_klen := len k; r_vlen := len v |})], p + 5 + len k + len v)) kvs ([],pos).
Definition stepix (st : list (list N * rec) * N) (kv : list N * list N) :=
  (fst st ++ [(fst kv, {| r_pos := snd st; r_klen := len (fst kv); r_vlen := len (snd kv) |})], snd st + 5 + len (fst kv) + len (snd kv)).
Lemma scan_all kvs : forall fuel tl pos acc,
  Forall (fun kv => len (snd kv) < 4294967296) kvs -> (length kvs <= fuel)%nat ->
  exists fuel', (fuel' + length kvs = fuel)%nat /\
  scanr fuel (concat (map (fun kv => enc (fst kv) (snd kv)) kvs) ++ tl) pos acc =
  scanr fuel' tl (snd (fold_left stepix kvs (acc,pos))) (fst (fold_left stepix kvs (acc,pos))).
Proof.
  induction kvs as [|[k v] kvs IH]; intros fuel tl pos acc Hwf Hf.
  - exists fuel. split; [simpl; lia|reflexivity].
  - inversion Hwf as [|x l Hv Hrest]; subst. simpl in Hv.
    destruct fuel as [|fuel]; [simpl in Hf; lia|].
    cbn [map concat fst snd fold_left]. rewrite <- app_assoc. rewrite scan_one by exact Hv.
    destruct (IH fuel tl (pos + 5 + len k + len v) (acc ++ [(k, {| r_pos := pos; r_klen := len k; r_vlen := len v |})]) Hrest) as [f' [Hf' Heq]]; [simpl in Hf; lia|].
    exists f'. split; [simpl; lia|]. rewrite Heq. reflexivity.
Qed.
(* torn tail: a strict prefix of a block is never indexed *)
Lemma scan_torn fuel k v n pos acc :
  len v < 4294967296 -> len k < 256 -> (n < length (enc k v))%nat ->
  scanr fuel (firstn n (enc k v)) pos acc = (acc, pos).
Proof.
  intros Hv Hk Hn. destruct fuel as [|fuel]; [reflexivity|].
  unfold enc, be32 in *. cbn [app] in *.
  do 5 (destruct n as [|n]; [reflexivity|]). cbn [firstn scanr].
  rewrite be32_val by exact Hv.
  replace (len k + len v <=? len (firstn n (k ++ v))) with false; [reflexivity|].
  symmetry. apply N.leb_gt. unfold len in *. rewrite firstn_length. simpl in Hn. rewrite app_length in *. lia.
Qed.
Print Assumptions scan_all. Print Assumptions scan_torn.
