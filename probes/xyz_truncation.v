From Coq Require Import List Bool Arith Lia.
Import ListNotations.
Section Xyz.
(* lines are abstract; the lexer is summarised by two classifiers and what the writer guarantees about them *)
Variables (line atom comment : Type).
Variables (as_count : line -> option nat) (as_atom : line -> option atom).
Variables (count_line : nat -> line) (comment_line : comment -> line) (atom_line : atom -> line) (comment_of : line -> comment).
Hypothesis count_ok : forall n, as_count (count_line n) = Some n.
Hypothesis atom_ok : forall a, as_atom (atom_line a) = Some a.
Hypothesis comment_ok : forall c, comment_of (comment_line c) = c.
Definition block := (comment * list atom)%type.
Fixpoint read_atoms (n : nat) (ls : list line) : option (list atom * list line) :=
  match n with
  | O => Some ([], ls)
  | S n' => match ls with
            | [] => None
            | l :: ls' => match as_atom l with
                          | None => None
                          | Some a => match read_atoms n' ls' with None => None | Some (ats, rest) => Some (a :: ats, rest) end
                          end
            end
  end.
Fixpoint read_xyz (fuel : nat) (ls : list line) : option (list block) :=
  match ls with
  | [] => Some []
  | l :: ls1 =>
    match fuel with O => None | S fuel' =>
    match as_count l with
    | None => None
    | Some n => match ls1 with
                | [] => None
                | c :: ls2 => match read_atoms n ls2 with
                              | None => None
                              | Some (ats, rest) => match read_xyz fuel' rest with None => None | Some bs => Some ((comment_of c, ats) :: bs) end
                              end
                end
    end end
  end.
Definition write_block (b : block) : list line := count_line (length (snd b)) :: comment_line (fst b) :: map atom_line (snd b).
Definition write (bs : list block) : list line := concat (map write_block bs).
Lemma read_atoms_full ats : forall rest, read_atoms (length ats) (map atom_line ats ++ rest) = Some (ats, rest).
Proof. induction ats as [|a ats IH]; intros rest; simpl; [reflexivity|]. now rewrite atom_ok, IH. Qed.
Lemma read_atoms_short ats : forall m, m < length ats -> read_atoms (length ats) (firstn m (map atom_line ats)) = None.
Proof.
  induction ats as [|a ats IH]; intros m Hm; simpl in *; [lia|]. destruct m as [|m]; simpl; [reflexivity|].
  rewrite atom_ok, IH by lia. reflexivity.
Qed.
Lemma firstn_map_all {X Y} (f : X -> Y) l m : length l <= m -> firstn m (map f l) = map f l.
Proof. intros H. apply firstn_all2. now rewrite map_length. Qed.
(* round trip *)
Theorem read_write bs : forall fuel, length bs <= fuel -> read_xyz fuel (write bs) = Some bs.
Proof.
  induction bs as [|[c ats] bs IH]; intros fuel Hf; [destruct fuel; reflexivity|].
  destruct fuel as [|fuel]; [simpl in Hf; lia|]. unfold write. cbn [map concat write_block fst snd app].
  cbn [read_xyz]. rewrite count_ok, read_atoms_full. fold (write bs). rewrite IH by (simpl in Hf; lia). now rewrite comment_ok.
Qed.
(* truncation at any line boundary: an error, or exactly a prefix of the molecules *)
Theorem read_truncated bs : forall k fuel, length bs <= fuel ->
  read_xyz fuel (firstn k (write bs)) = None \/ exists j, read_xyz fuel (firstn k (write bs)) = Some (firstn j bs).
Proof.
  induction bs as [|[c ats] bs IH]; intros k fuel Hf.
  - right. exists 0. unfold write. simpl. rewrite firstn_nil. destruct fuel; reflexivity.
  - destruct fuel as [|fuel]; [simpl in Hf; lia|]. unfold write. cbn [map concat write_block fst snd app]. fold (write bs).
    destruct k as [|k]; [right; exists 0; reflexivity|]. cbn [firstn read_xyz]. rewrite count_ok.
    destruct k as [|k]; [left; reflexivity|]. cbn [firstn].
    destruct (le_lt_dec (length ats) k) as [Hge|Hlt].
    + (* whole first block present *)
      rewrite firstn_app, map_length. rewrite firstn_map_all by exact Hge.
      rewrite read_atoms_full. rewrite comment_ok.
      destruct (IH (k - length ats) fuel) as [HN|[j HS]]; [simpl in Hf; lia| |].
      * left. now rewrite HN.
      * right. exists (S j). now rewrite HS.
    + (* cut inside the atom lines of the first block *)
      left. rewrite firstn_app, map_length. replace (k - length ats) with 0 by lia. rewrite firstn_O, app_nil_r.
      now rewrite read_atoms_short.
Qed.
End Xyz.
Print Assumptions read_truncated.
